"""E18 - the transformation constructors as closed forms (C08).

The constructors of geometer.transformation are short straight-line functions: what they build is visible in the source as a formula.
Every function is first turned into its *paths* (an `if` forks, locals are inlined into the expressions that use them, so the returned
expression is written over the parameters only) and each path is then read in a small algebra - nothing is executed, nothing is
handed to a solver, and whatever is outside the vocabulary of a rule leaves its obligation UNDECIDED.

  E18.affine   affine_transform: the buffer is the identity, `matrix` is stored into the upper-left block and `offset` into the last
               column above the corner (block abstraction of the item assignments: rows/columns `:-1` vs `-1`)
  E18.trans    translation hands the NORMALISED coordinates of Point(*coordinates) without the homogeneous one to affine_transform
               as offset; scaling hands np.diag(factors) as matrix
  E18.rot2     rotation(angle) is [[cos, -sin], [sin, cos]] (counter-clockwise), as polynomials in the atoms cos(angle), sin(angle)
  E18.rot3     rotation(angle, axis) is Rodrigues' formula cos*I + sin*K + (1 - cos)*a a^T with the axis direction a divided by its norm
               (the sign of the sin term is not judged: C08 states the turn as |angle|)
  E18.refl     reflection is the Householder matrix I - 2 v v^T with the normal v divided by its norm
  E18.frame    Transformation.from_points: the returned matrix, read as a word over the column matrices M0 (sources), M1 (targets), their
               inverses and diagonal matrices of the solved scale vectors d0 = M0^-1 a_last, d1 = M1^-1 b_last, sends every column of M0
               to a multiple of the corresponding column of M1 and the last source a_last = M0 d0 to the last target b_last = M1 d1.
               Words are normalised in the free group over M0, M1 with commuting diagonal factors; generic matrices satisfy no further
               relation, so a word that does not reduce is a construction that misses its target for points in general position.
"""

from __future__ import annotations

import ast
import copy
from fractions import Fraction

from geolint.model import FunctionInfo, Program
from geolint.polyform import LP, NotPolynomial
from geolint.report import PROVEN, UNDECIDED, VIOLATION, Run


# ---------------------------------------------------------------------------------------------- paths with inlined locals
class Path:
    def __init__(self):
        self.conds: list[tuple[ast.expr, bool]] = []
        self.env: dict[str, ast.expr] = {}
        self.effects: list[tuple[str, ast.expr | None, ast.expr, ast.expr, int]] = []  # (buffer name, its definition, index, value, line)
        self.ret: ast.expr | None = None
        self.raised = False
        self.opaque: list[str] = []  # statements that were not understood (loops ...)

    def fork(self) -> "Path":
        p = Path()
        p.conds, p.env, p.effects, p.opaque = list(self.conds), dict(self.env), list(self.effects), list(self.opaque)
        return p


class _Subst(ast.NodeTransformer):
    def __init__(self, env: dict[str, ast.expr]):
        self.env = env
        self.shadow: list[set[str]] = []

    def visit_Name(self, n: ast.Name):
        if isinstance(n.ctx, ast.Load) and n.id in self.env and not any(n.id in s for s in self.shadow):
            return copy.deepcopy(self.env[n.id])
        return n

    def _comp(self, n):
        bound = {x.id for g in n.generators for x in ast.walk(g.target) if isinstance(x, ast.Name)}
        # the iterables are evaluated outside the scope of the targets of their own generator
        for g in n.generators:
            g.iter = self.visit(g.iter)
        self.shadow.append(bound)
        for g in n.generators:
            g.ifs = [self.visit(i) for i in g.ifs]
        if isinstance(n, ast.DictComp):
            n.key, n.value = self.visit(n.key), self.visit(n.value)
        else:
            n.elt = self.visit(n.elt)
        self.shadow.pop()
        return n

    visit_ListComp = visit_SetComp = visit_GeneratorExp = visit_DictComp = _comp

    def visit_Lambda(self, n: ast.Lambda):
        self.shadow.append({a.arg for a in n.args.args + n.args.kwonlyargs})
        n.body = self.visit(n.body)
        self.shadow.pop()
        return n


def subst(e: ast.expr, env: dict[str, ast.expr]) -> ast.expr:
    return _Subst(env).visit(copy.deepcopy(e))


def paths_of(fn: FunctionInfo, limit: int = 64) -> list[Path]:
    done: list[Path] = []

    def run(stmts: list, p: Path) -> None:
        for i, st in enumerate(stmts):
            if len(done) > limit:
                return
            if isinstance(st, ast.Return):
                p.ret = subst(st.value, p.env) if st.value is not None else None
                done.append(p)
                return
            if isinstance(st, ast.Raise):
                p.raised = True
                done.append(p)
                return
            if isinstance(st, ast.If):
                test = subst(st.test, p.env)
                if isinstance(test, ast.Compare) and len(test.ops) == 1 and is_none(test.comparators[0]):
                    test.left = strip_array(test.left)  # np.asarray(x) is None exactly when x is
                known = [o for t, o in p.conds if same(t, test)]
                if known:  # the same test again: only the branch taken before is feasible
                    run((st.body if known[0] else st.orelse) + stmts[i + 1:], p)
                    return
                q = p.fork()
                p.conds.append((test, True))
                q.conds.append((test, False))
                run(st.body + stmts[i + 1:], p)
                run(st.orelse + stmts[i + 1:], q)
                return
            if isinstance(st, ast.Expr) and isinstance(st.value, ast.Constant):
                continue  # docstring
            if isinstance(st, ast.Assign) and len(st.targets) == 1:
                t = st.targets[0]
                v = subst(st.value, p.env)
                if isinstance(t, ast.Name):
                    p.env[t.id] = v
                    continue
                if isinstance(t, ast.Tuple) and all(isinstance(x, ast.Name) for x in t.elts):
                    if isinstance(v, (ast.Tuple, ast.List)) and len(v.elts) == len(t.elts):
                        for x, y in zip(t.elts, v.elts):
                            p.env[x.id] = y
                    else:
                        for k, x in enumerate(t.elts):
                            p.env[x.id] = ast.Subscript(value=copy.deepcopy(v), slice=ast.Constant(value=k), ctx=ast.Load())
                    continue
                if isinstance(t, ast.Subscript) and isinstance(t.value, ast.Name):
                    p.effects.append((t.value.id, p.env.get(t.value.id), subst(t.slice, p.env), v, st.lineno))
                    continue
            if isinstance(st, ast.AnnAssign) and isinstance(st.target, ast.Name) and st.value is not None:
                p.env[st.target.id] = subst(st.value, p.env)
                continue
            if isinstance(st, ast.AugAssign) and isinstance(st.target, ast.Name):
                p.env[st.target.id] = subst(ast.BinOp(left=ast.Name(id=st.target.id, ctx=ast.Load()), op=st.op, right=st.value), p.env)
                continue
            # anything else (loops, with, try, calls for effect): names it binds are no longer known
            p.opaque.append(type(st).__name__)
            for x in ast.walk(st):
                if isinstance(x, ast.Name) and isinstance(x.ctx, ast.Store):
                    p.env.pop(x.id, None)
        done.append(p)

    run(list(fn.node.body), Path())
    return done


def unread(p: Path) -> str | None:
    """why the inlined return expression of a path is not the whole story: statements outside the vocabulary, or writes into a buffer"""
    if p.opaque:
        return "statements outside the vocabulary (" + ", ".join(sorted(set(p.opaque))) + ")"
    if p.effects:
        return f"item assignment into `{p.effects[0][0]}` (line {p.effects[0][4]})"
    return None


def call_name(e: ast.AST) -> str:
    if isinstance(e, ast.Call):
        f = e.func
        return f.attr if isinstance(f, ast.Attribute) else f.id if isinstance(f, ast.Name) else ""
    return ""


def strip_array(e: ast.expr) -> ast.expr:
    """np.asarray(x) / np.array(x) / x.conj() / tuple(x) ... -> x"""
    while True:
        if isinstance(e, ast.Call) and call_name(e) in ("asarray", "array", "asanyarray", "tuple", "list", "ascontiguousarray") and e.args:
            e = e.args[0]
        elif isinstance(e, ast.Call) and isinstance(e.func, ast.Attribute) and e.func.attr in ("conj", "conjugate", "copy") and not e.args:
            e = e.func.value
        elif isinstance(e, ast.Call) and call_name(e) in ("conj", "conjugate") and len(e.args) == 1:
            e = e.args[0]
        else:
            return e


def same(a: ast.AST, b: ast.AST) -> bool:
    return ast.dump(a) == ast.dump(b)


def is_none(e: ast.AST) -> bool:
    return isinstance(e, ast.Constant) and e.value is None


def cond_says(p: Path, name: str) -> bool | None:
    """does the path assume `name is not None` (True), `name is None` (False), or neither (None)"""
    for test, outcome in p.conds:
        if isinstance(test, ast.Compare) and len(test.ops) == 1 and is_none(test.comparators[0]):
            subject = strip_array(test.left)
            if isinstance(subject, ast.Name) and subject.id == name:
                if isinstance(test.ops[0], ast.IsNot):
                    return outcome
                if isinstance(test.ops[0], ast.Is):
                    return not outcome
    return None


# ---------------------------------------------------------------------------------------------- E18.affine
def _axis_class(e: ast.AST, size: ast.AST | None) -> str | None:
    """'head' for the slice :-1 (all but the last), 'last' for the index -1, None when not read"""
    def is_last(x):
        if isinstance(x, ast.UnaryOp) and isinstance(x.op, ast.USub) and isinstance(x.operand, ast.Constant) and x.operand.value == 1:
            return True
        if isinstance(x, ast.Constant) and x.value == -1:
            return True
        return (size is not None and isinstance(x, ast.BinOp) and isinstance(x.op, ast.Sub) and same(x.left, size)
                and isinstance(x.right, ast.Constant) and x.right.value == 1)

    if isinstance(e, ast.Slice):
        lower_ok = e.lower is None or (isinstance(e.lower, ast.Constant) and e.lower.value == 0)
        if lower_ok and e.step is None and e.upper is not None and is_last(e.upper):
            return "head"
        return None
    return "last" if is_last(e) else None


def rule_affine(run: Run, prog: Program) -> int:
    run.rule("E18.affine", "affine_transform builds [[matrix, offset], [0, 1]]: on every path the buffer starts as the identity, `matrix` is stored "
                           "into the block of all-but-last rows and columns, `offset` into the last column of the all-but-last rows, and nothing "
                           "else is written")
    fn = prog.find_func("affine_transform")
    if fn is None:
        run.add("E18.affine", "affine_transform", "block layout", UNDECIDED, "affine_transform not found", "")
        return 0
    fn = prog.body_of(fn)
    params = [a.arg for a in fn.node.args.args + fn.node.args.kwonlyargs]
    if len(params) < 2:
        run.add("E18.affine", fn.short, "block layout", UNDECIDED, "affine_transform no longer takes (matrix, offset)", fn.loc)
        return 0
    p_matrix, p_offset = ("matrix" if "matrix" in params else params[0]), ("offset" if "offset" in params else params[1])
    n = 0
    problems: list[tuple[str, str, str]] = []
    undecided: list[str] = []
    for p in paths_of(fn):
        if p.raised or p.ret is None:
            continue
        n += 1
        has_matrix = cond_says(p, p_matrix)
        label = f"path with {p_matrix} {'given' if has_matrix else 'None' if has_matrix is False else 'unknown'}"
        loc = f"{fn.module.rel}:{fn.node.lineno}"
        if not (isinstance(p.ret, ast.Call) and p.ret.args):
            undecided.append(f"{label}: the return value is not a constructor call on a buffer")
            continue
        # the buffer: returned name is inlined to its definition, the effects name the variable
        buf_def = p.ret.args[0]
        if call_name(buf_def) not in ("eye", "identity"):
            undecided.append(f"{label}: the returned matrix is not a buffer that starts as np.eye(...)")
            continue
        size = buf_def.args[0] if buf_def.args else None
        writes = [e for e in p.effects if e[1] is not None and same(e[1], buf_def)]
        others = [e for e in p.effects if e not in writes]
        if p.opaque or others:
            undecided.append(f"{label}: statements outside the vocabulary ({', '.join(p.opaque) or 'writes into another buffer'})")
            continue
        blocks: dict[tuple[str, str], ast.expr] = {}
        bad_index = False
        for _name, _def, idx, value, line in writes:
            loc = f"{fn.module.rel}:{line}"
            if not (isinstance(idx, ast.Tuple) and len(idx.elts) == 2):
                bad_index = True
                break
            r, c = _axis_class(idx.elts[0], size), _axis_class(idx.elts[1], size)
            if r is None or c is None:
                bad_index = True
                break
            blocks[(r, c)] = value
            src = strip_array(value)
            src_name = src.id if isinstance(src, ast.Name) else None
            want = {("head", "head"): p_matrix, ("head", "last"): p_offset}.get((r, c))
            where = {("head", "head"): "the upper-left block", ("head", "last"): "the last column", ("last", "head"): "the last ROW",
                     ("last", "last"): "the corner"}[(r, c)]
            if src_name in (p_matrix, p_offset) and src_name != want:
                problems.append((f"`{src_name}` stored into {where}", f"{label}: `{src_name}` is written to {where} of the homogeneous matrix; the affine map "
                                 f"x -> matrix x + offset is [[matrix, offset], [0, 1]]", loc))
            elif want is None and not (isinstance(src, ast.Constant) and src.value == (1 if (r, c) == ("last", "last") else 0)):
                problems.append((f"write into {where}", f"{label}: {where} of an affine map is fixed (0 ... 0 1) but `{ast.unparse(value)[:40]}` is stored there", loc))
            elif want is not None and src_name != want:
                undecided.append(f"{label}: `{ast.unparse(value)[:40]}` stored into {where} is not read as the parameter `{want}`")
        if bad_index:
            undecided.append(f"{label}: an item assignment with an index that is not one of [:-1, :-1], [:-1, -1]")
            continue
        loc = f"{fn.module.rel}:{fn.node.lineno}"
        if ("head", "last") not in blocks:
            problems.append(("offset never stored", f"{label}: `{p_offset}` is not written into the last column", loc))
        if has_matrix is True and ("head", "head") not in blocks:
            problems.append(("matrix never stored", f"{label}: `{p_matrix}` is given but not written into the upper-left block", loc))
        if has_matrix is False and ("head", "head") in blocks and not is_none(blocks[("head", "head")]):
            src = strip_array(blocks[("head", "head")])
            if isinstance(src, ast.Name) and src.id == p_matrix:
                problems.append(("None stored as matrix", f"{label}: `{p_matrix}` is None on this path but is written into the upper-left block", loc))
    seen = set()
    for key, msg, loc in problems:
        if key in seen:
            continue
        seen.add(key)
        run.add("E18.affine", fn.short, key, VIOLATION, msg, loc)
    if undecided and not problems:
        run.add("E18.affine", fn.short, "block layout", UNDECIDED, "; ".join(sorted(set(undecided))[:3]), fn.loc)
    if not problems and not undecided:
        run.add("E18.affine", fn.short, "block layout", PROVEN if n else UNDECIDED,
                f"{n} paths: identity buffer, `{p_matrix}` -> rows/columns [:-1, :-1], `{p_offset}` -> [:-1, -1], no other write", fn.loc)
    return n


# ---------------------------------------------------------------------------------------------- E18.trans (translation, scaling)
def _affine_call(e: ast.AST) -> ast.Call | None:
    calls = [x for x in ast.walk(e) if isinstance(x, ast.Call) and call_name(x) == "affine_transform"]
    return calls[0] if len(calls) == 1 else None


def _affine_args(call: ast.Call) -> tuple[ast.expr | None, ast.expr | None]:
    matrix = call.args[0] if call.args else None
    offset = call.args[1] if len(call.args) > 1 else None
    for kw in call.keywords:
        if kw.arg == "matrix":
            matrix = kw.value
        if kw.arg == "offset":
            offset = kw.value
    if matrix is not None and is_none(matrix):
        matrix = None
    return matrix, offset


def rule_trans_scal(run: Run, prog: Program) -> int:
    run.rule("E18.trans", "translation(*coordinates) passes the normalised coordinates of Point(*coordinates), without the homogeneous one, as the "
                          "offset of affine_transform and no matrix; scaling(*factors) passes np.diag(factors) as the matrix and no offset")
    n = 0
    fn = prog.find_func("translation")
    if fn is not None:
        fn = prog.body_of(fn)
        var = fn.node.args.vararg.arg if fn.node.args.vararg else None
        for p in paths_of(fn):
            if p.ret is None:
                continue
            n += 1
            if unread(p):
                run.add("E18.trans", fn.short, "offset", UNDECIDED, unread(p), fn.loc)
                continue
            call = _affine_call(p.ret)
            if call is None or var is None:
                run.add("E18.trans", fn.short, "offset", UNDECIDED, "translation does not return one affine_transform(...) call over *coordinates", fn.loc)
                continue
            matrix, offset = _affine_args(call)
            loc = f"{fn.module.rel}:{fn.node.lineno}"
            if matrix is not None:
                run.add("E18.trans", fn.short, "offset", UNDECIDED, f"a matrix `{ast.unparse(matrix)[:40]}` is passed as well", loc)
                continue
            verdict, msg = UNDECIDED, f"offset `{ast.unparse(offset)[:60] if offset is not None else None}` is not read"
            if offset is None:
                verdict, msg = VIOLATION, "no offset is passed to affine_transform: the result is the identity"
            elif isinstance(offset, ast.Subscript) and _axis_class(offset.slice, None) == "head" and isinstance(offset.value, ast.Attribute):
                inner = offset.value.value
                point_of_args = (isinstance(inner, ast.Call) and call_name(inner) in ("Point", "PointTensor", "PointCollection") and len(inner.args) == 1
                                 and isinstance(inner.args[0], ast.Starred) and isinstance(inner.args[0].value, ast.Name) and inner.args[0].value.id == var)
                if point_of_args and offset.value.attr == "normalized_array":
                    verdict, msg = PROVEN, f"offset = Point(*{var}).normalized_array[:-1]"
                elif point_of_args and offset.value.attr == "array":
                    verdict, msg = VIOLATION, (f"offset = Point(*{var}).array[:-1]: the homogeneous coordinates are not normalised, so translation(p) for a "
                                               f"point p = (x, y, w) with w != 1 translates by (x, y) instead of (x/w, y/w)")
            elif isinstance(offset, ast.UnaryOp) and isinstance(offset.op, ast.USub):
                verdict, msg = VIOLATION, f"offset `{ast.unparse(offset)[:60]}` is negated: the map is p -> p - v"
            run.add("E18.trans", fn.short, "offset", verdict, msg, loc)
    fn = prog.find_func("scaling")
    if fn is not None:
        fn = prog.body_of(fn)
        var = fn.node.args.vararg.arg if fn.node.args.vararg else None
        for p in paths_of(fn):
            if p.ret is None:
                continue
            n += 1
            if unread(p):
                run.add("E18.trans", fn.short, "matrix", UNDECIDED, unread(p), fn.loc)
                continue
            call = _affine_call(p.ret)
            loc = f"{fn.module.rel}:{fn.node.lineno}"
            if call is None or var is None:
                run.add("E18.trans", fn.short, "matrix", UNDECIDED, "scaling does not return one affine_transform(...) call over *factors", fn.loc)
                continue
            matrix, offset = _affine_args(call)
            verdict, msg = UNDECIDED, f"matrix `{ast.unparse(matrix)[:60] if matrix is not None else None}` is not read"
            if matrix is None:
                verdict, msg = VIOLATION, "no matrix is passed to affine_transform: the result does not scale"
            elif call_name(matrix) in ("diag", "diagflat") and matrix.args:
                inner = strip_array(matrix.args[0])
                if isinstance(inner, ast.Name) and inner.id == var and len(matrix.args) == 1 and not matrix.keywords:
                    verdict, msg = PROVEN, f"matrix = np.diag({var})"
                elif len(matrix.args) > 1 or matrix.keywords:
                    verdict, msg = VIOLATION, f"`{ast.unparse(matrix)[:50]}` puts the factors on an off-diagonal"
                elif isinstance(inner, (ast.BinOp, ast.UnaryOp)) and any(isinstance(x, ast.Name) and x.id == var for x in ast.walk(inner)):
                    verdict, msg = VIOLATION, f"the diagonal is `{ast.unparse(inner)[:50]}`, not the factors themselves"
            if offset is not None and not (isinstance(offset, ast.Constant) and offset.value == 0) and verdict == PROVEN:
                verdict, msg = UNDECIDED, f"an offset `{ast.unparse(offset)[:40]}` is passed as well"
            run.add("E18.trans", fn.short, "matrix", verdict, msg, loc)
    return n


# ---------------------------------------------------------------------------------------------- matrices as LP over symbols
class _Forms:
    """reads an inlined matrix expression as a Laurent polynomial over I, aaT, K and the atoms cos/sin of the angle parameter"""

    def __init__(self, angle: str | None):
        self.angle = angle
        self.notes: list[str] = []
        self.raw_axis = False  # a direction vector that is provably NOT divided by its norm entered the formula
        self.unknown_axis = False
        self.signed_axis = False  # the unit axis is x / |x| of the raw homogeneous coordinates: it flips with the sign of the representative

    def unit(self, e: ast.expr) -> str:
        """'unit' | 'raw' | 'unknown' for a direction vector expression"""
        e = strip_array(e)
        if isinstance(e, ast.BinOp) and isinstance(e.op, ast.Div) and call_name(e.right) == "norm" and e.right.args and same(strip_array(e.right.args[0]), strip_array(e.left)):
            x = strip_array(e.left)
            while isinstance(x, (ast.Attribute, ast.Subscript)):
                if isinstance(x, ast.Attribute) and x.attr == "array":
                    # x / |x| of the coordinates AS GIVEN: a unit vector, but sign(lambda) times the direction for the representative lambda x
                    self.signed_axis = True
                x = x.value
            return "unit"
        if isinstance(e, ast.BinOp) and isinstance(e.op, ast.Mult):
            for vec, fac in ((e.left, e.right), (e.right, e.left)):
                if call_name(fac) == "norm" and fac.args and same(strip_array(fac.args[0]), strip_array(vec)):
                    return "raw"  # multiplied by its norm instead of divided: certainly not a unit vector
        x = e
        while isinstance(x, (ast.Attribute, ast.Subscript)):
            x = x.value
        if isinstance(x, ast.Name):
            return "raw"  # attribute / item chain on a parameter: the coordinates as given
        return "unknown"

    def axis_sym(self, base: str, vectors: list[ast.expr]) -> LP:
        kinds = {self.unit(v) for v in vectors}
        if kinds == {"unit"}:
            return LP.sym(base)
        if "raw" in kinds:
            self.raw_axis = True
            return LP.sym(base + "[axis not normalised]")
        self.unknown_axis = True
        return LP.sym(base + "[?]")

    def trig(self, name: str, arg: ast.expr) -> LP:
        sign = 1
        while isinstance(arg, ast.UnaryOp) and isinstance(arg.op, (ast.USub, ast.UAdd)):
            if isinstance(arg.op, ast.USub):
                sign = -sign
            arg = arg.operand
        if not (isinstance(arg, ast.Name) and arg.id == self.angle):
            raise NotPolynomial(f"{name} of `{ast.unparse(arg)[:30]}`, not of the angle parameter")
        return LP.sym("cos") if name == "cos" else LP.sym("sin") * LP.const(sign)

    def lp(self, e: ast.expr, depth: int = 0) -> LP:
        if depth > 40:
            raise NotPolynomial("too deep")
        if isinstance(e, ast.Constant) and isinstance(e.value, (int, float)) and not isinstance(e.value, bool):
            return LP.const(Fraction(e.value).limit_denominator(10 ** 6))
        if isinstance(e, ast.UnaryOp) and isinstance(e.op, ast.USub):
            return -self.lp(e.operand, depth + 1)
        if isinstance(e, ast.UnaryOp) and isinstance(e.op, ast.UAdd):
            return self.lp(e.operand, depth + 1)
        if isinstance(e, ast.BinOp):
            if isinstance(e.op, ast.Add):
                return self.lp(e.left, depth + 1) + self.lp(e.right, depth + 1)
            if isinstance(e.op, ast.Sub):
                return self.lp(e.left, depth + 1) - self.lp(e.right, depth + 1)
            if isinstance(e.op, ast.Mult):
                return self.lp(e.left, depth + 1) * self.lp(e.right, depth + 1)
            if isinstance(e.op, ast.Div):
                return self.lp(e.left, depth + 1) * self.lp(e.right, depth + 1).inverse()
        if isinstance(e, ast.Call):
            name = call_name(e)
            if name in ("cos", "sin") and len(e.args) == 1:
                return self.trig(name, e.args[0])
            if name in ("eye", "identity"):
                return LP.sym("I")
            if name == "outer" and len(e.args) >= 2:
                if not same(strip_array(e.args[0]), strip_array(e.args[1])):
                    raise NotPolynomial("outer product of two different vectors")
                return self.axis_sym("aaT", [e.args[0], e.args[1]])
            if name in ("asarray", "array") and e.args:
                return self.lp(e.args[0], depth + 1)
        # the cross-product matrix of the axis: a contraction of the axis direction with the Levi-Civita tensor
        names = {x.id for x in ast.walk(e) if isinstance(x, ast.Name)}
        if "LeviCivitaTensor" in names or call_name(e) == "hat_matrix":
            vectors = [x.args[0] for x in ast.walk(e) if isinstance(x, ast.Call) and call_name(x) in ("Tensor", "hat_matrix", "Point") and x.args
                       and not isinstance(x.args[0], ast.Starred)]
            if not vectors:
                raise NotPolynomial("the vector contracted with the Levi-Civita tensor was not found")
            return self.axis_sym("K", vectors)
        raise NotPolynomial(f"`{ast.unparse(e)[:50]}`")


def rule_rotation(run: Run, prog: Program) -> int:
    run.rule("E18.rot", "rotation(angle) is [[cos, -sin], [sin, cos]]; rotation(angle, axis) is cos*I + (+-)sin*K + (1 - cos)*a a^T with a the axis "
                        "direction divided by its norm and K its cross-product matrix (Rodrigues), as identities of polynomials in cos(angle), sin(angle)")
    fn = prog.find_func("rotation")
    if fn is None:
        run.add("E18.rot", "rotation", "closed forms", UNDECIDED, "rotation not found", "")
        return 0
    fn = prog.body_of(fn)
    params = [a.arg for a in fn.node.args.args]
    angle, axis = (params + [None, None])[:2]
    n = 0
    for p in paths_of(fn):
        if p.ret is None:
            continue
        planar = cond_says(p, axis) is False if axis else None
        call = _affine_call(p.ret)
        loc = f"{fn.module.rel}:{p.ret.lineno if hasattr(p.ret, 'lineno') else fn.node.lineno}"
        label = "rotation of the plane" if planar else "rotation about an axis"
        n += 1
        if unread(p):
            run.add("E18.rot", fn.short, label, UNDECIDED, unread(p), loc)
            continue
        if call is None:
            run.add("E18.rot", fn.short, label, UNDECIDED, "the path does not return one affine_transform(...) call", loc)
            continue
        matrix, offset = _affine_args(call)
        if matrix is None or offset is not None:
            run.add("E18.rot", fn.short, label, UNDECIDED, "affine_transform is not called with a matrix only", loc)
            continue
        forms = _Forms(angle)
        try:
            if planar:
                if not (isinstance(matrix, (ast.List, ast.Tuple)) and len(matrix.elts) == 2
                        and all(isinstance(r, (ast.List, ast.Tuple)) and len(r.elts) == 2 for r in matrix.elts)):
                    raise NotPolynomial("the matrix is not a literal 2x2 table")
                got = [[forms.lp(x) for x in r.elts] for r in matrix.elts]
                c, s = LP.sym("cos"), LP.sym("sin")
                want = [[c, -s], [s, c]]
                wrong = [(i, j) for i in range(2) for j in range(2) if not (got[i][j] - want[i][j]).is_zero()]
                if not wrong:
                    run.add("E18.rot", fn.short, label, PROVEN, "[[cos, -sin], [sin, cos]]: counter-clockwise by the angle", loc)
                else:
                    i, j = wrong[0]
                    clockwise = all((got[i_][j_] - [[c, s], [-s, c]][i_][j_]).is_zero() for i_ in range(2) for j_ in range(2))
                    run.add("E18.rot", fn.short, label, VIOLATION,
                            f"entry ({i}, {j}) is {got[i][j].show()}, the counter-clockwise rotation has {want[i][j].show()} there"
                            + (": this matrix turns CLOCKWISE" if clockwise else ""), loc)
                continue
            got = forms.lp(matrix)
        except NotPolynomial as e:
            run.add("E18.rot", fn.short, label, UNDECIDED, f"not read as a closed form: {e}", loc)
            continue
        c, s, i_, k, a = LP.sym("cos"), LP.sym("sin"), LP.sym("I"), LP.sym("K"), LP.sym("aaT")
        base = c * i_ + (LP.const(1) - c) * a
        if forms.raw_axis:
            run.add("E18.rot", fn.short, label, VIOLATION,
                    "the axis direction enters Rodrigues' formula as given, not divided by its norm: for an axis direction of length r the matrix is "
                    "not orthogonal (the a a^T term is scaled by r^2, the cross-product term by r)", loc)
        elif forms.unknown_axis:
            run.add("E18.rot", fn.short, label, UNDECIDED, "the normalisation of the axis direction is not read", loc)
        elif forms.signed_axis and not (got - base).is_zero():
            run.add("E18.rot", fn.short, label, VIOLATION,
                    "the unit axis is x / |x| of the homogeneous coordinates as given (`.array`), not of the dehomogenised ones: for the representative -x of the same "
                    "axis point it is the opposite vector, and the cross-product term sin*K, which is odd in the axis, turns the rotation the other way", loc)
        elif (got - base - s * k).is_zero() or (got - base + s * k).is_zero():
            run.add("E18.rot", fn.short, label, PROVEN, "cos*I + sin*K + (1 - cos)*a a^T with a unit axis a", loc)
        else:
            run.add("E18.rot", fn.short, label, VIOLATION,
                    f"the matrix is {got.show()[:150]}, Rodrigues' formula is 1*I*cos + 1*K*sin + 1*aaT + -1*aaT*cos", loc)
    return n


def rule_reflection(run: Run, prog: Program) -> int:
    run.rule("E18.refl", "reflection builds the Householder matrix I - 2 v v^T from the normal v of the mirror divided by its norm")
    fn = prog.find_func("reflection")
    if fn is None:
        run.add("E18.refl", "reflection", "Householder matrix", UNDECIDED, "reflection not found", "")
        return 0
    fn = prog.body_of(fn)
    n = 0
    for p in paths_of(fn):
        if p.ret is None:
            continue
        call = _affine_call(p.ret)
        if call is None:
            continue  # the mirror at infinity returns the identity
        n += 1
        loc = f"{fn.module.rel}:{call.lineno if hasattr(call, 'lineno') else fn.node.lineno}"
        if unread(p):
            run.add("E18.refl", fn.short, "Householder matrix", UNDECIDED, unread(p), loc)
            continue
        matrix, _offset = _affine_args(call)
        forms = _Forms(None)
        try:
            if matrix is None:
                raise NotPolynomial("no matrix")
            got = forms.lp(matrix)
        except NotPolynomial as e:
            run.add("E18.refl", fn.short, "Householder matrix", UNDECIDED, f"not read as a closed form: {e}", loc)
            continue
        want = LP.sym("I") - LP.const(2) * LP.sym("aaT")
        if forms.raw_axis:
            run.add("E18.refl", fn.short, "Householder matrix", VIOLATION,
                    "the normal enters I - 2 v v^T as given, not divided by its norm: for a mirror a x + b y = c with a^2 + b^2 != 1 the map is no reflection", loc)
        elif forms.unknown_axis:
            run.add("E18.refl", fn.short, "Householder matrix", UNDECIDED, "the normalisation of the normal is not read", loc)
        elif (got - want).is_zero():
            run.add("E18.refl", fn.short, "Householder matrix", PROVEN, "I - 2 v v^T with a unit normal v", loc)
        else:
            run.add("E18.refl", fn.short, "Householder matrix", VIOLATION, f"the matrix is {got.show()[:120]}, the Householder reflection is 1*I + -2*aaT", loc)
    if n == 0:
        run.add("E18.refl", fn.short, "Householder matrix", UNDECIDED, "no path through affine_transform(...)", fn.loc)
    return n


# ---------------------------------------------------------------------------------------------- E18.frame: words over M0, M1, diagonals
class NotWord(Exception):
    pass


def _norm_word(w: list) -> list:
    """free reduction: adjacent diagonal factors multiply (they commute), a matrix next to its inverse cancels"""
    out: list = []
    for f in w:
        if f[0] == "D":
            mono = {k: v for k, v in f[1] if v != 0}
            if not mono:
                continue
            if out and out[-1][0] == "D":
                m = dict(out[-1][1])
                for k, v in mono.items():
                    m[k] = m.get(k, 0) + v
                m = {k: v for k, v in m.items() if v != 0}
                out.pop()
                if m:
                    out.append(("D", tuple(sorted(m.items(), key=repr))))
                else:
                    # the factors on both sides of the vanished diagonal may now cancel
                    out = _norm_word(out)
            else:
                out.append(("D", tuple(sorted(mono.items(), key=repr))))
        else:
            if out and out[-1][0] == "M" and out[-1][1] == f[1] and out[-1][3] == f[3] and out[-1][2] == -f[2]:
                out.pop()
                out = _norm_word(out)
            else:
                out.append(f)
    return out


def _inv_word(w: list) -> list:
    return [("D", tuple((k, -v) for k, v in f[1])) if f[0] == "D" else ("M", f[1], -f[2], f[3]) for f in reversed(w)]


def _t_word(w: list) -> list:
    return [f if f[0] == "D" else ("M", f[1], f[2], not f[3]) for f in reversed(w)]


def _show_word(w: list, vec: bool = False) -> str:
    def f_(f):
        if f[0] == "D":
            return "diag(" + "*".join(f"{k if isinstance(k, str) else 'w'}" + (f"^{v}" if v != 1 else "") for k, v in f[1]) + ")"
        return f"M{f[1]}" + ("^T" if f[3] else "") + ("^-1" if f[2] < 0 else "")
    return " ".join(f_(f) for f in w) + (" 1" if vec else "") or "identity"


class _Frame:
    """values: ("mat", word) | ("vec", word, shape) - a vector is word applied to the all-ones vector, shape "flat" (1-d), "col" (n x 1) or
    "row" (1 x n) | ("list", side) all points of a side | ("head", side) all but the last | ("full", side) all points stacked as columns"""

    def __init__(self, args_name: str):
        self.args = args_name

    def last(self, side: int, shape: str = "flat"):
        # the last point of a side is M_side d_side by definition of the solved vector d_side
        return ("vec", [("M", side, 1, False), ("D", ((f"d{side}", 1),))], shape)

    def vec_as_diag(self, v) -> list:
        w = _norm_word(v[1])
        if len(w) == 1 and w[0][0] == "D":
            return w
        if not w:
            return []
        return [("D", ((("vec", tuple(w)), 1),))]  # an opaque diagonal: the vector is not one of the solved scale vectors

    @staticmethod
    def _index_kinds(sl: ast.expr) -> list[str]:
        elts = sl.elts if isinstance(sl, ast.Tuple) else [sl]
        out = []
        for x in elts:
            if isinstance(x, ast.Constant) and x.value is Ellipsis:
                out.append("...")
            elif isinstance(x, ast.Slice) and x.lower is None and x.upper is None and x.step is None:
                out.append(":")
            elif is_none(x) or ast.unparse(x) in ("np.newaxis", "numpy.newaxis"):
                out.append("None")
            elif _axis_class(x, None) == "head":
                out.append(":-1")
            elif _axis_class(x, None) == "last":
                out.append("-1")
            elif isinstance(x, ast.Slice) and x.upper is None and x.step is None and _axis_class(x.lower, None) == "last":
                out.append("-1:")
            else:
                out.append("?")
        return out

    def ev(self, e: ast.expr):
        if isinstance(e, ast.Starred):
            return self.ev(e.value)
        if isinstance(e, ast.ListComp) and len(e.generators) == 1:
            g = e.generators[0]
            if isinstance(g.iter, ast.Name) and g.iter.id == self.args and isinstance(g.target, ast.Tuple) and len(g.target.elts) == 2 and not g.ifs:
                names = [t.id if isinstance(t, ast.Name) else None for t in g.target.elts]
                elt = e.elt
                if isinstance(elt, ast.Attribute) and elt.attr == "array" and isinstance(elt.value, ast.Name) and elt.value.id in names:
                    return ("list", names.index(elt.value.id))
            if isinstance(g.iter, ast.Name) and g.iter.id == self.args and isinstance(g.target, ast.Name) and not g.ifs:
                elt = e.elt
                if (isinstance(elt, ast.Attribute) and elt.attr == "array" and isinstance(elt.value, ast.Subscript) and isinstance(elt.value.value, ast.Name)
                        and elt.value.value.id == g.target.id and isinstance(elt.value.slice, ast.Constant) and elt.value.slice.value in (0, 1)):
                    return ("list", elt.value.slice.value)
            raise NotWord(f"comprehension `{ast.unparse(e)[:50]}`")
        if isinstance(e, ast.Subscript):
            base = self.ev(e.value)
            kinds = self._index_kinds(e.slice)
            if base[0] == "list":
                if kinds == [":-1"]:
                    return ("head", base[1])
                if kinds == ["-1"]:
                    return self.last(base[1])
            if base[0] == "full":  # points are the columns: the last axis selects points
                lead = kinds[:-1]
                if all(k in ("...", ":") for k in lead) and lead:
                    if kinds[-1] == ":-1":
                        return ("mat", [("M", base[1], 1, False)])
                    if kinds[-1] == "-1":
                        return self.last(base[1])
                    if kinds[-1] == "-1:":
                        return self.last(base[1], "col")
            if base[0] == "vec":
                if base[2] == "flat" and kinds in ([":", "None"], ["...", "None"]):
                    return ("vec", base[1], "col")
                if base[2] == "flat" and kinds in (["None", ":"], ["None", "..."], ["None"]):
                    return ("vec", base[1], "row")
                if base[2] == "col" and kinds in (["...", "0"], [":", "0"]):
                    return ("vec", base[1], "flat")
            raise NotWord(f"subscript `{ast.unparse(e)[:50]}`")
        if isinstance(e, ast.Attribute) and e.attr in ("T", "mT"):
            return self.transpose(self.ev(e.value))
        if isinstance(e, ast.BinOp):
            if isinstance(e.op, ast.MatMult):
                return self.matmul(self.ev(e.left), self.ev(e.right))
            if isinstance(e.op, (ast.Mult, ast.Div)):
                sign = 1 if isinstance(e.op, ast.Mult) else -1
                l, r = self.ev(e.left), self.ev(e.right)
                if l[0] == "vec" and r[0] == "vec" and l[2] == r[2]:
                    dl, dr = self.vec_as_diag(l), self.vec_as_diag(r)
                    return ("vec", dl + (dr if sign == 1 else _inv_word(dr)), l[2])
                if l[0] == "mat" and r[0] == "vec":
                    d = self.vec_as_diag(r)
                    d = d if sign == 1 else _inv_word(d)
                    # broadcasting: a 1-d or row vector scales the columns (M D), a column vector scales the rows (D M)
                    return ("mat", d + l[1]) if r[2] == "col" else ("mat", l[1] + d)
                if l[0] == "vec" and r[0] == "mat" and sign == 1:
                    d = self.vec_as_diag(l)
                    return ("mat", d + r[1]) if l[2] == "col" else ("mat", r[1] + d)
            raise NotWord(f"`{ast.unparse(e)[:50]}`")
        if isinstance(e, ast.Call):
            name = call_name(e)
            args = e.args
            kw = {k.arg: k.value for k in e.keywords}
            np_call = isinstance(e.func, ast.Attribute) and isinstance(e.func.value, ast.Name) and e.func.value.id in ("np", "numpy")
            if isinstance(e.func, ast.Attribute) and name in ("dot", "matmul", "__matmul__") and len(args) == 1 and not np_call:
                return self.matmul(self.ev(e.func.value), self.ev(args[0]))
            if name in ("dot", "matmul") and len(args) == 2:
                return self.matmul(self.ev(args[0]), self.ev(args[1]))
            if name == "multi_dot" and len(args) == 1 and isinstance(args[0], (ast.List, ast.Tuple)):
                vals = [self.ev(x) for x in args[0].elts]
                out = vals[0]
                for v in vals[1:]:
                    out = self.matmul(out, v)
                return out
            if name == "broadcast_arrays" and len(args) == 1:
                v = self.ev(args[0])
                if v[0] in ("list", "head"):
                    return v
            if name == "column_stack" and len(args) == 1:
                v = self.ev(args[0])
                if v[0] == "head":
                    return ("mat", [("M", v[1], 1, False)])
                if v[0] == "list":
                    return ("full", v[1])
            if name == "stack" and len(args) >= 1:
                v = self.ev(args[0])
                axis = kw.get("axis", args[1] if len(args) > 1 else ast.Constant(value=0))
                try:
                    axis = ast.literal_eval(axis)
                except ValueError:
                    axis = None
                if v[0] == "head" and axis in (0, 1, -1, -2):
                    return ("mat", [("M", v[1], 1, axis in (0, -2))])
                if v[0] == "list" and axis in (1, -1):
                    return ("full", v[1])
            if name in ("array", "asarray", "vstack", "row_stack") and len(args) == 1:
                v = self.ev(args[0])
                if v[0] == "head":
                    return ("mat", [("M", v[1], 1, True)])
                if v[0] in ("mat", "vec", "full"):
                    return v
            if name in ("transpose", "swapaxes") and len(args) >= 1:
                if name == "swapaxes":
                    try:
                        ax = sorted(ast.literal_eval(x) for x in args[1:3])
                    except ValueError:
                        ax = None
                    if ax != [-2, -1]:
                        raise NotWord(f"`{ast.unparse(e)[:50]}`")
                elif len(args) > 1 or kw:
                    raise NotWord(f"`{ast.unparse(e)[:50]}`")
                return self.transpose(self.ev(args[0]))
            if name == "inv" and len(args) == 1:
                v = self.ev(args[0])
                if v[0] == "mat":
                    return ("mat", _inv_word(v[1]))
            if name == "solve" and len(args) == 2:
                m, v = self.ev(args[0]), self.ev(args[1])
                if m[0] == "mat" and v[0] == "mat":
                    return ("mat", _inv_word(m[1]) + v[1])
                if m[0] == "mat" and v[0] == "vec" and v[2] in ("flat", "col"):
                    return ("vec", _inv_word(m[1]) + v[1], v[2])
            if name in ("diag", "diagflat") and len(args) == 1:
                v = self.ev(args[0])
                if v[0] == "vec" and v[2] == "flat":
                    return ("mat", self.vec_as_diag(v))
            if name == "reciprocal" and len(args) == 1:
                v = self.ev(args[0])
                if v[0] == "vec":
                    return ("vec", _inv_word(self.vec_as_diag(v)), v[2])
            if name in ("squeeze", "ravel", "flatten") and len(args) <= 1:
                v = self.ev(args[0] if args else e.func.value)
                if v[0] == "vec":
                    return ("vec", v[1], "flat")
            if name in ("cls", "Transformation", "TransformationCollection", "from_array") and args:
                return self.ev(args[0])
            raise NotWord(f"call `{ast.unparse(e)[:50]}`")
        raise NotWord(f"`{ast.unparse(e)[:50]}`")

    @staticmethod
    def transpose(v):
        if v[0] == "mat":
            return ("mat", _t_word(v[1]))
        if v[0] == "vec":
            return ("vec", v[1], {"flat": "flat", "col": "row", "row": "col"}[v[2]])
        raise NotWord("transpose of a list")

    @staticmethod
    def matmul(l, r):
        if l[0] == "mat" and r[0] == "mat":
            return ("mat", l[1] + r[1])
        if l[0] == "mat" and r[0] == "vec" and r[2] in ("flat", "col"):
            return ("vec", l[1] + r[1], r[2])
        raise NotWord("product of something that is not a matrix")


def rule_frame(run: Run, prog: Program) -> int:
    run.rule("E18.frame", "Transformation.from_points: the returned matrix, as a word over the column matrices of sources and targets and the diagonal "
                          "matrices of the solved scale vectors, sends the first n+1 sources to multiples of their targets and the last source to the "
                          "last target (free reduction of the word; generic matrices satisfy no further relation)")
    cls = prog.cls("Transformation")
    fn = prog.lookup(cls, "from_points") if cls else None
    if fn is None:
        run.add("E18.frame", "Transformation.from_points", "frame", UNDECIDED, "from_points not found", "")
        return 0
    fn = prog.body_of(fn)
    var = fn.node.args.vararg.arg if fn.node.args.vararg else None
    n = 0
    for p in paths_of(fn):
        if p.ret is None or p.raised:
            continue
        n += 1
        loc = f"{fn.module.rel}:{fn.node.lineno}"
        if var is None or unread(p):
            run.add("E18.frame", fn.short, "frame", UNDECIDED, f"from_points no longer is straight-line code over *args: {unread(p)}", loc)
            continue
        fr = _Frame(var)
        try:
            val = fr.ev(p.ret)
            if val[0] != "mat":
                raise NotWord("the result is not a matrix")
            w = val[1]
            cols = _norm_word(w + [("M", 0, 1, False)])
            last = _norm_word(w + fr.last(0)[1])
        except NotWord as e:
            run.add("E18.frame", fn.short, "frame", UNDECIDED, f"not read as a word over the frame matrices: {e}", loc)
            continue
        except RecursionError:
            run.add("E18.frame", fn.short, "frame", UNDECIDED, "word too long", loc)
            continue
        cols_ok = bool(cols) and cols[0] == ("M", 1, 1, False) and all(f[0] == "D" for f in cols[1:]) and len(cols) <= 2
        want_last = _norm_word(fr.last(1)[1])
        if not cols_ok:
            run.add("E18.frame", fn.short, "first n+1 points", VIOLATION,
                    f"T M0 reduces to `{_show_word(cols)}`, not to M1 times a diagonal matrix: the sources are not sent to multiples of their targets "
                    f"(T = `{_show_word(_norm_word(w))}`)", loc)
        else:
            run.add("E18.frame", fn.short, "first n+1 points", PROVEN, f"T M0 = {_show_word(cols)}: every source column goes to a multiple of its target column", loc)
        if last == want_last:
            run.add("E18.frame", fn.short, "last point", PROVEN, f"T a_last = T M0 d0 = {_show_word(last, True)} = b_last", loc)
        else:
            run.add("E18.frame", fn.short, "last point", VIOLATION,
                    f"T a_last = T M0 d0 reduces to `{_show_word(last, True)}`, the last target is b_last = `{_show_word(want_last, True)}`: the (n+2)-th point "
                    f"misses its target unless the scale vectors d0 = M0^-1 a_last and d1 = M1^-1 b_last happen to be proportional (T = `{_show_word(_norm_word(w))}`)", loc)
    return n


def rule_conics_delegate(run: Run, prog: Program) -> int:
    """from_points_and_conics hands four (source, target) pairs to from_points: every pair takes its two points from the two sides in the same order"""
    run.rule("E18.pairs", "from_points_and_conics passes pairs (point of the first conic, point of the second conic) to from_points, all in that order")
    cls = prog.cls("Transformation")
    fn = prog.lookup(cls, "from_points_and_conics") if cls else None
    if fn is None:
        return 0
    fn = prog.body_of(fn)
    params = [a.arg for a in fn.node.args.args]
    if len(params) < 5:
        run.add("E18.pairs", fn.short, "pairs", UNDECIDED, "signature changed", fn.loc)
        return 0
    side_of = {params[1]: 0, params[3]: 0, params[2]: 1, params[4]: 1}
    n = 0

    def side(e: ast.expr) -> int | None:
        names = {x.id for x in ast.walk(e) if isinstance(x, ast.Name)} & set(side_of)
        sides = {side_of[x] for x in names}
        return sides.pop() if len(sides) == 1 else None

    for p in paths_of(fn):
        if p.ret is None or p.raised:
            continue
        calls = [x for x in ast.walk(p.ret) if isinstance(x, ast.Call) and call_name(x) == "from_points"]
        if len(calls) != 1:
            continue
        n += 1
        loc = f"{fn.module.rel}:{fn.node.lineno}"
        bad = []
        unknown = 0
        for k, a in enumerate(calls[0].args):
            if not (isinstance(a, ast.Tuple) and len(a.elts) == 2):
                unknown += 1
                continue
            s0, s1 = side(a.elts[0]), side(a.elts[1])
            if s0 is None or s1 is None:
                unknown += 1
            elif (s0, s1) != (0, 1):
                bad.append(f"pair {k + 1} is built from (side {s0 + 1}, side {s1 + 1})")
        if bad:
            run.add("E18.pairs", fn.short, "pairs", VIOLATION, "; ".join(bad) + ": a pair must be (point of conic1, point of conic2)", loc)
            return n
        if unknown or len(calls[0].args) != 4:
            run.add("E18.pairs", fn.short, "pairs", UNDECIDED, f"{unknown} pair(s) not read / {len(calls[0].args)} pairs", loc)
            return n
    if n:
        run.add("E18.pairs", fn.short, "pairs", PROVEN, f"{n} path(s): four pairs, each (derived from points1/conic1, derived from points2/conic2)", fn.loc)
    return n


def rule_orthogonal(run: Run, prog: Program) -> int:
    run.rule("E18.orth", "rotation(angle, axis), when its matrix can be read as a 3x3 table of polynomials in cos / sin of multiples of the angle and the axis "
                         "coordinates: R^T R = I, det R = 1 and R a = a as polynomial identities modulo cos^2 + sin^2 = 1 and |a|^2 = norm(a)^2 - the first "
                         "sentence of C08 about rotation(a, axis) itself, whatever formula is used")
    from geolint import quadforms as qf

    fn = prog.find_func("rotation")
    if fn is None:
        return 0
    fn = prog.body_of(fn)
    params = [a.arg for a in fn.node.args.args]
    if len(params) < 2:
        return 0
    captured: dict = {}

    def affine(args, kwargs):
        captured["matrix"] = args[0] if args else kwargs.get("matrix")
        captured["offset"] = args[1] if len(args) > 1 else kwargs.get("offset")
        return qf.Opaque("transformation")

    it = qf.Interp(prog, None, {})
    it.trig = True
    it.hooks = {**qf.library_hooks(it), "affine_transform": affine}
    env = {params[0]: LP.sym("angle"), params[1]: qf.PointSym("a", 3)}
    loc = fn.loc
    try:
        it.block(fn.node.body, env)
    except qf._Done:
        pass
    except qf._Raise:
        pass
    except (qf.Unknown, NotPolynomial) as ex:
        run.add("E18.orth", fn.short, "orthogonal, determinant 1, fixes the axis", UNDECIDED, f"not read: {str(ex)[:100]}", loc)
        return 1
    m = captured.get("matrix")
    if not isinstance(m, qf.Table) or m.shape != (3, 3) or captured.get("offset") is not None:
        why = getattr(m, "why", type(m).__name__)
        run.add("E18.orth", fn.short, "orthogonal, determinant 1, fixes the axis", UNDECIDED,
                f"the matrix handed to affine_transform is not read as a 3x3 table of polynomials ({str(why)[:80]}); the Rodrigues form is judged by E18.rot", loc)
        return 1
    rules = it.rules
    problems = []
    try:
        for i in range(3):
            for j in range(i, 3):
                e = LP()
                for k in range(3):
                    e = e + m.data[(k, i)] * m.data[(k, j)]
                if i == j:
                    e = e - LP.const(1)
                if not qf.zero_mod(e, rules):
                    problems.append(f"(R^T R)[{i}][{j}] is not {1 if i == j else 0}")
        axis_vec = [LP.sym(f"a{i}") for i in range(3)]
        for i in range(3):
            e = -axis_vec[i]
            for k in range(3):
                e = e + m.data[(i, k)] * axis_vec[k]
            if not qf.zero_mod(e, rules):
                problems.append(f"(R a)[{i}] is not a[{i}]: the axis is not fixed")
        if not problems and not qf.zero_mod(qf._det_table(m) - LP.const(1), rules):
            problems.append("det R is not 1")
    except (qf.Unknown, NotPolynomial) as ex:
        run.add("E18.orth", fn.short, "orthogonal, determinant 1, fixes the axis", UNDECIDED, f"not read: {str(ex)[:100]}", loc)
        return 1
    if problems:
        run.add("E18.orth", fn.short, "orthogonal, determinant 1, fixes the axis", VIOLATION,
                "; ".join(problems[:3]) + f" ({len(problems)} of 10 identities fail, modulo cos^2 + sin^2 = 1 and the norm of the axis)", loc)
    else:
        run.add("E18.orth", fn.short, "orthogonal, determinant 1, fixes the axis", PROVEN,
                "R^T R = I, R a = a and det R = 1 as polynomial identities modulo cos^2 + sin^2 = 1 and |a|^2 = norm(a)^2", loc)
    return 1


def rule_all(run: Run, prog: Program) -> int:
    return (rule_affine(run, prog) + rule_trans_scal(run, prog) + rule_rotation(run, prog) + rule_orthogonal(run, prog) + rule_reflection(run, prog)
            + rule_frame(run, prog) + rule_conics_delegate(run, prog))
