"""numpy indexing semantics at the level of index KINDS (the oracle of E13).

An index element is one of
    "int"        an integer (removes its axis)
    "slice"      a slice (keeps its axis)
    "none"       None / np.newaxis (inserts an axis)
    "ellipsis"   Ellipsis (at most one)
    ("iarr", k)  an integer array with k >= 1 dimensions (consumes one axis)
    ("barr", k)  a boolean mask with k >= 1 dimensions (consumes k axes, contributes one broadcast dimension)
    ("list", k)  a (nested) list of integers of depth k: numpy treats it like an integer array

`result_axes(index, rank)` returns, for an array with `rank` axes, the list that says where each axis of `a[index]` comes from: the
number of the source axis for an axis kept by a slice, None for an axis that is new (inserted by None or produced by advanced
indexing). It returns the string "invalid" when numpy would reject the index (too many indices).

Rules (numpy 1.26 "Indexing on ndarrays"): an Ellipsis expands to the slices that are missing; missing trailing axes are sliced
fully; integers, integer arrays and masks are *advanced* indices as soon as one array or mask is present; the broadcast
dimensions of the advanced indices (max of the array ndims, masks count as 1-d) replace them in place when all advanced indices
are adjacent in the index tuple, and are put FIRST otherwise (a slice, None or Ellipsis between two of them separates them).

The table was validated once against numpy itself for every index of the enumerated domain (tools/validate_indexspec.py).
"""

from __future__ import annotations

import itertools

ELEMENT_KINDS = ["int", "slice", "none", "ellipsis", ("iarr", 1), ("iarr", 2), ("barr", 1), ("barr", 2), ("list", 1)]


def consumed(el) -> int:
    if el in ("none", "ellipsis"):
        return 0
    if isinstance(el, tuple) and el[0] == "barr":
        return el[1]
    return 1


def is_array(el) -> bool:
    return isinstance(el, tuple)


def result_axes(index: tuple, rank: int):
    if sum(1 for e in index if e == "ellipsis") > 1:
        return "invalid"
    used = sum(consumed(e) for e in index)
    if used > rank:
        return "invalid"
    # expand the ellipsis / pad with slices
    expanded: list = []
    seen_ellipsis = False
    for e in index:
        if e == "ellipsis":
            seen_ellipsis = True
            # slices that stand for the ellipsis: they separate advanced indices like any slice - and so does an ellipsis that
            # stands for no axis at all (a[:, 1, ..., idx] puts the broadcast dimension first, a[:, 1, idx] does not)
            expanded += ["slice*"] * (rank - used) if rank > used else ["separator"]
        else:
            expanded.append(e)
    if not seen_ellipsis:
        expanded += ["slice"] * (rank - used)
    arrays = [e for e in expanded if is_array(e)]
    advanced = bool(arrays)
    bdim = max((1 if e[0] == "barr" else e[1]) for e in arrays) if arrays else 0
    # positions of advanced indices in the expanded tuple
    adv_pos = [i for i, e in enumerate(expanded) if is_array(e) or (advanced and e == "int")]
    adjacent = adv_pos == list(range(adv_pos[0], adv_pos[-1] + 1)) if adv_pos else True
    out: list = []
    axis = 0
    placed = False
    for i, e in enumerate(expanded):
        if e in ("slice", "slice*"):
            out.append(axis)
            axis += 1
        elif e == "none":
            out.append(None)
        elif e == "separator":
            continue
        elif e == "int":
            if advanced and adjacent and not placed and i == adv_pos[0]:
                out += [None] * bdim
                placed = True
            axis += 1
        else:
            if adjacent and not placed and i == adv_pos[0]:
                out += [None] * bdim
                placed = True
            axis += consumed(e)
    if advanced and not adjacent:
        out = [None] * bdim + out
    return out


def domain(max_len: int = 3, ranks=(2, 3, 4)):
    """every index tuple of up to max_len elements over ELEMENT_KINDS that numpy accepts for the given rank"""
    for rank in ranks:
        for n in range(1, max_len + 1):
            for idx in itertools.product(ELEMENT_KINDS, repeat=n):
                r = result_axes(idx, rank)
                if r != "invalid":
                    yield rank, idx, r
