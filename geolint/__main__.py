"""CLI: ./check <ID> [--tier quick|thorough] [--replay FILE] [--repo DIR] [--no-evidence]"""

from __future__ import annotations

import argparse
import json
import os
import sys
import traceback


def main(argv: list[str] | None = None) -> int:
    ap = argparse.ArgumentParser(prog="check")
    ap.add_argument("prop")
    ap.add_argument("--tier", default=os.environ.get("VERIF_TIER", "quick"), choices=["quick", "thorough"])
    ap.add_argument("--replay", default=None)
    ap.add_argument("--repo", default=None, help="analyse this checkout instead of /repo (self-test, seeded variants)")
    ap.add_argument("--no-evidence", action="store_true", help="do not write evidence/replay files (scratch runs)")
    ap.add_argument("--no-controls", action="store_true")
    args = ap.parse_args(argv)
    if args.repo:
        os.environ["GEOLINT_REPO"] = args.repo
    try:
        seed = int(os.environ.get("VERIF_SEED", "0") or 0)
    except ValueError:
        seed = 0
    try:
        from geolint import checks

        code = checks.run_property(
            args.prop, tier=args.tier, seed=seed, write_evidence=not args.no_evidence,
            replay=args.replay, controls=not args.no_controls,
        )
    except SystemExit:
        raise
    except BaseException as e:  # noqa: BLE001 - a crash of the checker is an analysis error, never a verdict
        from geolint.model import AnalysisError

        if not isinstance(e, AnalysisError):
            traceback.print_exc()
        print(f"ANALYSIS-ERROR property={args.prop} {type(e).__name__}: {e}")
        return 2
    return code


if __name__ == "__main__":
    sys.exit(main())
