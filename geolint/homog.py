"""E5 - homogeneity (representative independence) typing. Serves C03 and clauses of C09, C11, C17.

An abstract interpreter over the statement tree with path enumeration; values are degree maps (geolint/hv.py)."""

from __future__ import annotations

import ast
from dataclasses import dataclass, replace
from fractions import Fraction

from geolint import hv as H
from geolint.hv import HV, OV, TOP, UNT
from geolint.model import ClassInfo, FunctionInfo, Program, norm_stmt
from geolint.report import INFO, PROVEN, UNDECIDED, VIOLATION, Run
from geolint.typeval import TypeEval

TOL_NAMES = {"tol", "atol", "rtol", "EQ_TOL_ABS", "EQ_TOL_REL", "eps", "tolerance"}
MAX_STATES = 48
MAX_DEPTH = 4


@dataclass(frozen=True)
class LV:
    """python list / tuple of values"""
    items: tuple | None = None  # known items (values or ('star', value))
    elem: object = None  # generic element


class Other:
    def __repr__(self):
        return "<other>"


OTHER = Other()


@dataclass
class Sink:
    rule: str
    fn: str
    stmt: str
    verdict: str
    msg: str
    loc: str
    detail: object = None


class Analyzer:
    def __init__(self, prog: Program) -> None:
        self.prog = prog
        self.te = TypeEval(prog)
        self.sinks: dict[tuple, Sink] = {}
        self.memo: dict = {}
        self.stack: list[str] = []
        self.proj_root = prog.find_cls("ProjectiveTensor")
        self.poly_root = prog.find_cls("PolytopeTensor")
        self.returns: dict[str, list] = {}

    # ------------------------------------------------------------------ class facts
    def is_projective(self, classes) -> bool:
        ks = [self.prog.classes[q] for q in classes if q in self.prog.classes]
        return bool(ks) and self.proj_root is not None and all(self.prog.is_subclass(k, self.proj_root) for k in ks)

    def is_polytope(self, classes) -> bool:
        ks = [self.prog.classes[q] for q in classes if q in self.prog.classes]
        return bool(ks) and self.poly_root is not None and all(self.prog.is_subclass(k, self.poly_root) for k in ks)

    def param_value(self, fn: FunctionInfo, name: str, ann, is_self: bool):
        if is_self:
            classes = frozenset({fn.cls.qualname}) if fn.cls else frozenset()
        else:
            tv = self.te.from_annotation(fn.module, ann, fn, fn.cls)
            classes = tv.classes
            if not classes and tv.elem is not None and self.is_projective(tv.elem.classes):
                return LV(elem=H.obj(name, tv.elem.classes, generic=True))
        if self.is_projective(classes):
            return H.obj(name, classes, generic=self.is_polytope(classes))
        if not is_self and any(self.prog.classes[q].name == "Tensor" for q in classes if q in self.prog.classes):
            return H.obj(name, frozenset(), generic=False)  # `Tensor | ArrayLike` operands are usually projective objects
        return UNT

    # ------------------------------------------------------------------ sinks
    def sink(self, rule: str, fn: FunctionInfo, st, verdict: str, msg: str, detail=None) -> None:
        key = (rule, fn.short, norm_stmt(st))
        order = {VIOLATION: 3, UNDECIDED: 2, PROVEN: 1, INFO: 0}
        old = self.sinks.get(key)
        if old is None or order[verdict] > order[old.verdict]:
            self.sinks[key] = Sink(rule, fn.short, norm_stmt(st), verdict, msg, f"{fn.module.rel}:{getattr(st, 'lineno', fn.node.lineno)}", detail)

    # ------------------------------------------------------------------ function analysis
    def analyse_root(self, fn: FunctionInfo):
        env = {}
        a = fn.node.args
        ps = fn.params()
        for i, p in enumerate(ps):
            is_self = i == 0 and fn.cls is not None and not fn.is_staticmethod and not fn.is_classmethod
            if i == 0 and fn.cls is not None and fn.is_classmethod:
                env[p.arg] = OTHER
                continue
            env[p.arg] = self.param_value(fn, p.arg, p.annotation, is_self)
        if a.vararg:
            tv = self.te.from_annotation(fn.module, a.vararg.annotation, fn, fn.cls)
            tensorish = self.is_projective(tv.classes) or any(self.prog.classes[q].name == "Tensor" for q in tv.classes if q in self.prog.classes)
            if tensorish and fn.name not in ("__init__", "__new__"):
                env[a.vararg.arg] = LV(elem=H.obj(a.vararg.arg, tv.classes if self.is_projective(tv.classes) else frozenset(), generic=True))
            else:
                env[a.vararg.arg] = LV(elem=UNT)
        if a.kwarg:
            env[a.kwarg.arg] = OTHER
        return self.run_fn(fn, env, root=True)

    def run_fn(self, fn: FunctionInfo, env: dict, root: bool = False):
        if fn.qualname in self.stack or len(self.stack) >= MAX_DEPTH:
            return TOP("recursion / depth limit")
        self.stack.append(fn.qualname)
        try:
            it = Interp(self, fn, env, root)
            it.run()
            rv = None
            for r in it.returned:
                rv = join_val(rv, r)
            if root:
                self.returns[fn.qualname] = it.returned_nodes
            return rv if rv is not None else UNT
        finally:
            self.stack.pop()


def join_val(a, b):
    if a is None:
        return b
    if b is None:
        return a
    if isinstance(a, HV) and isinstance(b, HV):
        return H.join(a, b)
    if isinstance(a, OV) and isinstance(b, OV):
        if a == b:
            return a
        if H.same_map(a.arr, b.arr):
            return OV(arr=a.arr, finite=a.finite and b.finite, types=a.types | b.types, label=a.label)
        return OV(arr=TOP("different objects on different paths"), types=a.types | b.types)
    if isinstance(a, LV) and isinstance(b, LV):
        if a == b:
            return a
        return LV(elem=join_val(elem_of(a), elem_of(b)))
    if a is OTHER and b is OTHER:
        return OTHER
    if isinstance(a, HV) and not a.tainted and b is OTHER:
        return OTHER
    if isinstance(b, HV) and not b.tainted and a is OTHER:
        return OTHER
    return TOP("values of different kinds on different paths")


def elem_of(v):
    if isinstance(v, LV):
        if v.items is not None:
            out = None
            for x in v.items:
                x = x[1] if isinstance(x, tuple) and x and x[0] == "star" else x
                out = join_val(out, x)
            return out if out is not None else UNT
        return v.elem if v.elem is not None else UNT
    if isinstance(v, HV):
        if v.items is not None:
            out = None
            for x in v.items:
                out = join_val(out, x)
            return out if out is not None else UNT
        if v.parts is not None and False:
            return v
        return replace(v, parts=None) if v.parts is None else v
    if isinstance(v, OV):
        return v
    return OTHER


def as_hv(v) -> HV:
    if isinstance(v, HV):
        return v
    if isinstance(v, OV):
        return v.arr
    if isinstance(v, LV):
        e = elem_of(v)
        return as_hv(e) if not isinstance(e, LV) else TOP("nested list")
    if v is None:
        return UNT
    return UNT if v is OTHER else TOP("value outside the vocabulary")


class Interp:
    def __init__(self, an: Analyzer, fn: FunctionInfo, env: dict, root: bool) -> None:
        self.an = an
        self.prog = an.prog
        self.fn = fn
        self.root = root
        self.states: list[dict] = [dict(env)]
        self.returned: list = []
        self.returned_nodes: list = []
        self.cur = None
        self.env: dict = {}

    # ------------------------------------------------------------------ statements
    def run(self) -> None:
        self.states = self.block(self.fn.node.body, self.states)

    def block(self, body, states: list[dict]) -> list[dict]:
        for st in body:
            if not states:
                break
            states = self.stmt(st, states)
            if len(states) > MAX_STATES:
                merged = states[0]
                for s in states[1:]:
                    merged = {k: join_val(merged.get(k), s.get(k)) for k in set(merged) | set(s)}
                states = [merged]
        return states

    def stmt(self, st, states):
        self.cur = st
        out = []
        if isinstance(st, ast.If):
            for env in states:
                self.env = env
                self.ev(st.test)
                t = self.static_truth(st.test, env)
                scalar_name, scalar_when = self.scalar_guard(st.test)
                if t is not False:
                    e1 = dict(env)
                    if scalar_name and scalar_when is True:
                        e1[scalar_name] = UNT
                    out += self.block(st.body, [e1])
                if t is not True:
                    e2 = dict(env)
                    if scalar_name and scalar_when is False:
                        e2[scalar_name] = UNT
                    out += self.block(st.orelse, [e2])
            return out
        if isinstance(st, (ast.For, ast.While)):
            for env in states:
                self.env = env
                if isinstance(st, ast.For):
                    it = self.ev(st.iter)
                    self.bind(st.target, self.iter_elem(it), env)
                else:
                    self.ev(st.test)
                inner = self.block(st.body, [dict(env)])
                merged = dict(env)
                for s in inner:
                    for k in set(merged) | set(s):
                        merged[k] = join_val(merged.get(k), s.get(k)) if k in merged and k in s else (merged.get(k) if k in merged else s.get(k))
                out += self.block(st.orelse, [merged])
            return out
        if hasattr(ast, "Match") and isinstance(st, ast.Match):
            for env in states:
                self.env = env
                self.ev(st.subject)
                for case in st.cases:
                    e2 = dict(env)
                    for n in ast.walk(case.pattern):
                        nm = getattr(n, "name", None)
                        if isinstance(nm, str):
                            e2[nm] = self.ev(st.subject)
                    out += self.block(case.body, [e2])
                out.append(dict(env))  # no case matched
            return out
        if isinstance(st, ast.With):
            for env in states:
                self.env = env
                for item in st.items:
                    self.ev(item.context_expr)
            return self.block(st.body, states)
        if isinstance(st, ast.Try):
            for env in states:
                out += self.block(st.body + st.orelse, [dict(env)])
                for h in st.handlers:
                    e2 = dict(env)
                    if h.name:
                        e2[h.name] = OTHER
                    out += self.block(h.body, [e2])
            return self.block(st.finalbody, out) if st.finalbody else out
        for env in states:
            self.env = env
            self.cur = st
            if isinstance(st, ast.Return):
                v = self.ev(st.value) if st.value is not None else UNT
                self.returned.append(v)
                self.returned_nodes.append((st, v))
                continue
            if isinstance(st, ast.Raise):
                if st.exc is not None:
                    pass
                continue
            if isinstance(st, ast.Assign):
                v = self.ev(st.value)
                for t in st.targets:
                    self.bind(t, v, env)
            elif isinstance(st, ast.AnnAssign) and st.value is not None:
                self.bind(st.target, self.ev(st.value), env)
            elif isinstance(st, ast.AugAssign):
                cur = self.ev(st.target) if not isinstance(st.target, ast.Subscript) else self.ev(st.target.value)
                rhs = self.ev(st.value)
                new = self.binop(st.op, cur, rhs, st)
                if isinstance(st.target, ast.Name):
                    env[st.target.id] = new
                elif isinstance(st.target, ast.Subscript) and isinstance(st.target.value, ast.Name):
                    env[st.target.value.id] = join_val(cur, new)
            elif isinstance(st, ast.Expr):
                self.ev(st.value)
            elif isinstance(st, (ast.FunctionDef, ast.ClassDef)):
                env[st.name] = OTHER
            out.append(env)
        return out

    @staticmethod
    def scalar_guard(test):
        """(name, arm) when the test says that `name` is a plain number in that arm: is_numerical_scalar(x) / np.isscalar(x) / not ..."""
        neg = False
        t = test
        if isinstance(t, ast.UnaryOp) and isinstance(t.op, ast.Not):
            neg, t = True, t.operand
        if isinstance(t, ast.Call) and len(t.args) == 1 and isinstance(t.args[0], ast.Name):
            fname = t.func.attr if isinstance(t.func, ast.Attribute) else getattr(t.func, "id", "")
            if fname in ("is_numerical_scalar", "isscalar"):
                return t.args[0].id, (not neg)
        return None, None

    def static_truth(self, test, env):
        # `x is None` / `x is not None` for parameters bound to objects; isinstance on known classes
        if isinstance(test, ast.Compare) and len(test.ops) == 1 and isinstance(test.ops[0], (ast.Is, ast.IsNot)) \
                and isinstance(test.comparators[0], ast.Constant) and test.comparators[0].value is None and isinstance(test.left, ast.Name):
            v = env.get(test.left.id)
            if v is None and test.left.id in env:
                return isinstance(test.ops[0], ast.Is)
            return None
        if isinstance(test, ast.Call) and isinstance(test.func, ast.Name) and test.func.id == "isinstance" and len(test.args) == 2 \
                and isinstance(test.args[0], ast.Name):
            v = env.get(test.args[0].id)
            if isinstance(v, OV) and v.types:
                ks = test.args[1].elts if isinstance(test.args[1], ast.Tuple) else [test.args[1]]
                qs = [self.prog.resolve_expr_name(self.fn.module, k, self.fn) for k in ks]
                if all(q in self.prog.classes for q in qs):
                    vt = [self.prog.classes[t] for t in v.types]
                    if all(any(self.prog.is_subclass(t, self.prog.classes[q]) for q in qs) for t in vt):
                        return True
                    subs = [s for t in vt for s in self.prog.subclasses(t)]
                    if not any(self.prog.is_subclass(s, self.prog.classes[q]) for s in subs for q in qs):
                        return False
        return None

    def bind(self, target, v, env) -> None:
        if isinstance(target, ast.Name):
            env[target.id] = v
        elif isinstance(target, (ast.Tuple, ast.List)):
            n = len(target.elts)
            items = self.expand_items(v, n)
            for i, t in enumerate(target.elts):
                t2 = t.value if isinstance(t, ast.Starred) else t
                self.bind(t2, items[i] if items is not None and i < len(items) else self.iter_elem(v), env)
        elif isinstance(target, ast.Subscript) and isinstance(target.value, ast.Name):
            old = env.get(target.value.id)
            if isinstance(old, HV) and isinstance(v, (HV, OV)):
                new = collapse(as_hv(v))
                if old.mixed:
                    nv = old
                elif old.ones and not old.tainted and new.tainted and not new.top and not new.mixed and not (new.parts or new.cols):
                    nv = replace(new, mixed=f"raw homogeneous data ({new.describe()}) stored next to non-zero constants of an identity/ones matrix", proj=True)
                else:
                    nv = H.join(old, new) if (old.tainted or new.tainted) else old
                env[target.value.id] = nv
        # attribute stores are irrelevant for degrees

    def expand_items(self, v, n: int):
        items = None
        if isinstance(v, LV) and v.items is not None:
            items = list(v.items)
        elif isinstance(v, HV) and v.items is not None:
            items = list(v.items)
        elif isinstance(v, HV) and v.parts is not None and len(v.parts) == n:
            return list(v.parts)
        elif isinstance(v, HV) and H.has_generic(v) and not v.parts and not v.cols:
            return [self.specialise(v, i) for i in range(n)]
        elif isinstance(v, OV) and H.has_generic(v.arr):
            return [OV(arr=self.specialise(v.arr, i), finite=v.finite, types=frozenset(), label=f"{v.label}#{i}") for i in range(n)]
        if items is None:
            return None
        stars = [i for i, x in enumerate(items) if isinstance(x, tuple) and x and x[0] == "star"]
        if not stars:
            return items if len(items) == n else None
        if len(stars) > 1:
            return None
        k = n - (len(items) - 1)
        if k < 0:
            return None
        i = stars[0]
        sv = items[i][1]
        exp = [self.specialise(sv, j) if isinstance(sv, HV) else sv for j in range(k)]
        return items[:i] + exp + items[i + 1:]

    @staticmethod
    def specialise(v: HV, i: int) -> HV:
        """generic vertex symbol -> the i-th vertex"""
        if v.top:
            return v
        return replace(v, deg=tuple(sorted((s[:-2] + f"#{i}" if H.is_generic(s) else s, q, c) for s, q, c in v.deg)))

    def iter_elem(self, v):
        if isinstance(v, OV):
            return v
        return elem_of(v)

    # ------------------------------------------------------------------ expressions
    def P(self, r, *ops):
        if isinstance(r, HV) and not r.proj and any(isinstance(o, HV) and (o.proj or o.tainted) or isinstance(o, OV) for o in ops):
            return replace(r, proj=True)
        return r

    def ev(self, e):
        if e is None:
            return None
        m = getattr(self, "e_" + type(e).__name__, None)
        if m is None:
            return OTHER
        return m(e)

    def e_Constant(self, e):
        if e.value is None:
            return None
        if isinstance(e.value, (int, float, complex)) and not isinstance(e.value, bool):
            return HV(const=e.value, zero=(e.value == 0))
        return OTHER if isinstance(e.value, str) else UNT

    def e_Name(self, e):
        if e.id in self.env:
            return self.env[e.id]
        t = self.prog.resolve_name(self.fn.module, e.id, self.fn)
        if t and self.prog.global_value(t) is not None:
            m, val = self.prog.global_value(t)
            if isinstance(val, ast.Call):
                k = self.prog.resolve_expr_name(m, val.func)
                if k in self.prog.classes and self.an.is_projective({k}):
                    return OV(arr=UNT, finite=False, types=frozenset({k}), label=e.id)  # module constant: fixed representative
                if k in self.prog.functions:
                    return OV(arr=UNT, finite=False, label=e.id)
            return UNT
        return OTHER if t else UNT

    def e_JoinedStr(self, e):
        return OTHER

    def e_Lambda(self, e):
        return OTHER

    def e_Starred(self, e):
        return ("star", self.ev(e.value))

    def e_IfExp(self, e):
        self.ev(e.test)
        return join_val(self.ev(e.body), self.ev(e.orelse))

    def e_BoolOp(self, e):
        out = None
        for v in e.values:
            out = join_val(out, self.ev(v))
        return out

    def _seq(self, e):
        items = []
        for x in e.elts:
            v = self.ev(x)
            if isinstance(v, tuple) and v and v[0] == "star":
                inner = v[1]
                if isinstance(inner, LV) and inner.items is not None:
                    items += list(inner.items)
                    continue
                if isinstance(inner, HV) and inner.items is not None:
                    items += list(inner.items)
                    continue
            items.append(v)
        if all(isinstance(x, HV) for x in items) and items:
            return HV(items=tuple(items), proj=any(x.proj for x in items))
        return LV(items=tuple(items))

    e_List = _seq
    e_Tuple = _seq

    def e_ListComp(self, e):
        saved = dict(self.env)
        for g in e.generators:
            self.bind(g.target, self.iter_elem(self.ev(g.iter)), self.env)
            for c in g.ifs:
                self.ev(c)
        v = self.ev(e.elt)
        self.env.clear()
        self.env.update(saved)
        return LV(elem=v)

    e_GeneratorExp = e_ListComp
    e_SetComp = e_ListComp

    def e_UnaryOp(self, e):
        v = self.ev(e.operand)
        if isinstance(e.op, ast.Not):
            return UNT
        if isinstance(e.op, ast.Invert):
            return UNT if not as_hv(v).tainted else v
        if isinstance(v, HV) and isinstance(e.op, ast.USub) and isinstance(v.const, (int, float)):
            return replace(v, const=-v.const)
        return v

    def e_BinOp(self, e):
        return self.binop(e.op, self.ev(e.left), self.ev(e.right), e)

    def is_tol(self, node) -> bool:
        return isinstance(node, ast.Name) and node.id in TOL_NAMES

    def binop(self, op, l, r, node):
        if isinstance(l, OV) and not l.types and isinstance(r, HV):
            l = l.arr  # an operand typed `Tensor | ArrayLike`: plain array arithmetic
        if isinstance(r, OV) and not r.types and isinstance(l, HV):
            r = r.arr
        if isinstance(l, OV) or isinstance(r, OV):
            if isinstance(op, (ast.Add, ast.Sub)):
                return H.TOP_OBJ
            if isinstance(op, ast.Mult):
                # transformation * object / scalar * point ...
                return H.opaque(f"({ast.unparse(node)[:40]})") if (isinstance(l, OV) and isinstance(r, OV)) else H.TOP_OBJ
            return H.TOP_OBJ
        if isinstance(l, LV) or isinstance(r, LV):
            if isinstance(op, ast.Add) and isinstance(l, LV) and isinstance(r, LV) and l.items is not None and r.items is not None:
                return LV(items=l.items + r.items)
            if isinstance(op, ast.Mult):
                return LV(elem=elem_of(l if isinstance(l, LV) else r))
            return LV(elem=join_val(elem_of(l) if isinstance(l, LV) else None, elem_of(r) if isinstance(r, LV) else None))
        a, b = as_hv(l), as_hv(r)
        if a.items is not None or b.items is not None:
            if isinstance(op, ast.Add) and a.items is not None and b.items is not None:
                return HV(items=a.items + b.items, proj=a.proj or b.proj)
            if isinstance(op, ast.Mult) and (not a.tainted and not b.tainted):
                return UNT
            a = as_hv(elem_of(a)) if a.items is not None else a
            b = as_hv(elem_of(b)) if b.items is not None else b
        if isinstance(op, ast.Mult):
            return self.P(H.mul(a, b), a, b)
        if isinstance(op, (ast.Div, ast.FloorDiv)):
            return self.P(H.mul(a, b, -1), a, b)
        if isinstance(op, (ast.Add, ast.Sub)):
            tol = False
            if isinstance(node, ast.BinOp):
                tol = self.is_tol(node.right) or self.is_tol(node.left)
            return self.P(H.add(a, b, 1 if isinstance(op, ast.Add) else -1, tolerance=tol), a, b)
        if isinstance(op, ast.Pow):
            n = b.const if isinstance(b.const, (int, float)) else None
            if n is None and isinstance(node, ast.BinOp):
                n = const_value(node.right)
            if not a.tainted:
                return UNT if not b.tainted else TOP("tainted exponent")
            return self.P(H.power(a, n), a)
        if isinstance(op, ast.MatMult):
            return self.P(H.mul(a, b), a, b)
        if isinstance(op, (ast.BitAnd, ast.BitOr, ast.BitXor)):
            return UNT if not (a.tainted or b.tainted) else TOP("bit operation on tainted data")
        if isinstance(op, ast.Mod):
            return a if not b.tainted else TOP("modulo")
        return TOP("operator outside the vocabulary")

    def e_Compare(self, e):
        vals = [self.ev(e.left)] + [self.ev(c) for c in e.comparators]
        nodes = [e.left] + list(e.comparators)
        res = UNT
        for i, op in enumerate(e.ops):
            l, r = vals[i], vals[i + 1]
            if isinstance(l, (OV, LV)) or isinstance(r, (OV, LV)) or l is OTHER or r is OTHER or l is None or r is None:
                continue
            a, b = as_hv(l), as_hv(r)
            if isinstance(op, (ast.Lt, ast.LtE, ast.Gt, ast.GtE)):
                self.order_sink(a, b, nodes[i], nodes[i + 1], e)
            elif isinstance(op, (ast.Eq, ast.NotEq)):
                self.equality_sink(a, b, nodes[i], nodes[i + 1], e)
        return res

    # ---- the sinks of comparisons
    def order_sink(self, a: HV, b: HV, na, nb, node) -> None:
        if not (a.proj or b.proj or a.tainted or b.tainted):
            return
        text = ast.unparse(node)[:80]
        if not a.tainted and not b.tainted:
            self.an.sink("E5.order", self.fn, self.cur_stmt(node), PROVEN, f"`{text}` compares degree-0 (dehomogenised) quantities", None)
            return
        if a.top or b.top:
            self.an.sink("E5.order", self.fn, self.cur_stmt(node), UNDECIDED, f"`{text}`: {a.describe()} vs {b.describe()}", None)
            return
        if a.parts or b.parts or a.cols or b.cols:
            self.an.sink("E5.order", self.fn, self.cur_stmt(node), UNDECIDED, f"`{text}`: structured operands", None)
            return
        even = all(c == H.EVEN for _s, _q, c in a.deg + b.deg)
        zero_side = (a.zero and not a.tainted) or (b.zero and not b.tainted)
        tol_side = (self.is_tol(na) and not a.tainted) or (self.is_tol(nb) and not b.tainted)
        if (H.same_map(a, b) or zero_side) and even:
            self.an.sink("E5.order", self.fn, self.cur_stmt(node), PROVEN,
                         f"`{text}`: both sides scale by the same positive factor ({a.describe()} vs {b.describe()})", None)
        elif tol_side and even:
            self.an.sink("E5.order", self.fn, self.cur_stmt(node), PROVEN, f"`{text}`: magnitude against a tolerance (zero test)", None)
        else:
            why = "the sign of the compared quantity flips with the sign of the representative" if (H.same_map(a, b) or zero_side) else \
                "the two sides scale differently when a representative is rescaled"
            self.an.sink("E5.order", self.fn, self.cur_stmt(node), VIOLATION,
                         f"order/sign decision `{text}` on raw homogeneous coordinates: left is {a.describe()}, right is {b.describe()}; {why}",
                         {"left": a.describe(), "right": b.describe()})

    def equality_sink(self, a: HV, b: HV, na, nb, node) -> None:
        if not (a.tainted or b.tainted):
            return
        text = ast.unparse(node)[:80]
        if a.top or b.top:
            self.an.sink("E5.eq", self.fn, self.cur_stmt(node), UNDECIDED, f"`{text}`: {a.describe()} vs {b.describe()}", None)
            return
        if (a.zero and not a.tainted) or (b.zero and not b.tainted):
            self.an.sink("E5.eq", self.fn, self.cur_stmt(node), PROVEN, f"`{text}` is a zero test (any degree)", None)
            return
        if H.same_map(a, b):
            self.an.sink("E5.eq", self.fn, self.cur_stmt(node), PROVEN, f"`{text}` compares quantities of equal degree", None)
            return
        if not a.tainted or not b.tainted:
            t = a if a.tainted else b
            self.an.sink("E5.eq", self.fn, self.cur_stmt(node), VIOLATION,
                         f"`{text}` compares raw homogeneous data ({t.describe()}) with a non-zero constant: true for one representative only", None)
            return
        self.an.sink("E5.eq", self.fn, self.cur_stmt(node), UNDECIDED, f"`{text}`: {a.describe()} vs {b.describe()}", None)

    def cur_stmt(self, node):
        return self.cur if self.cur is not None else node

    # ---- attribute / subscript
    def e_Attribute(self, e):
        t = self.prog.resolve_expr_name(self.fn.module, e, self.fn) if not self._local_root(e) else None
        if t is not None:
            if self.prog.global_value(t) is not None:
                return OV(arr=UNT, label=e.attr)
            if not t.startswith("geometer"):
                return UNT
            return OTHER
        v = self.ev(e.value)
        return self.attr(v, e.attr, e)

    def _local_root(self, e) -> bool:
        while isinstance(e, (ast.Attribute, ast.Subscript, ast.Call)):
            e = e.value if not isinstance(e, ast.Call) else e.func
        return isinstance(e, ast.Name) and e.id in self.env

    UNT_ATTRS = {"dim", "shape", "rank", "free_indices", "tensor_shape", "pdim", "is_dual", "dtype", "size", "isinf", "isreal",
                 "is_degenerate", "basis_matrix", "ndim", "dependent_values"}

    def attr(self, v, name: str, node):
        if isinstance(v, OV):
            if name == "array" or name == "_edges":
                return replace(v.arr, proj=True) if isinstance(v.arr, HV) else v.arr
            if name == "normalized_array":
                if v.arr.top:
                    return v.arr
                if v.finite or not v.arr.tainted:
                    if v.arr.parts:
                        return HV(parts=tuple(HV(aff=Fraction(1), proj=True) for _ in v.arr.parts), proj=True)
                    return HV(aff=Fraction(1), proj=True)
                return TOP("normalised coordinates of a possibly infinite point keep the scale of its representative")
            if name in self.UNT_ATTRS:
                return HV(proj=True)
            if name == "vertices":
                base = v.arr
                if base.parts:
                    return LV(items=tuple(OV(arr=p, finite=v.finite, label=f"{v.label}.v{i}") for i, p in enumerate(base.parts)))
                return LV(elem=OV(arr=replace(base, parts=None), finite=v.finite, label=v.label + ".vertex"))
            if name == "edges" and self.an.is_polytope(v.types or {"x"}) or (name == "edges" and H.has_generic(v.arr)):
                a = v.arr
                if not a.top and not a.parts and H.has_generic(a):
                    w = replace(a, deg=tuple(sorted((s[:-2] + "@w" if s.endswith("@v") else s, q, c) for s, q, c in a.deg)))
                    return OV(arr=HV(parts=(a, w), proj=True), finite=v.finite, types=self._prop_types(v, "edges"), label=v.label + ".edges")
                return OV(arr=a, finite=v.finite, label=v.label + ".edges", types=self._prop_types(v, "edges"))
            if name in ("faces", "facets", "T", "copy"):
                return replace(v, types=self._prop_types(v, name) or v.types)
            return self.member(v, name, node, call=None)
        if isinstance(v, HV):
            if name in ("T", "real", "imag", "flat"):
                return v
            if name in ("shape", "ndim", "dtype", "size") or name in self.UNT_ATTRS:
                return UNT
            return TOP(f"attribute .{name} of an array") if v.tainted else UNT
        if isinstance(v, LV):
            return OTHER
        return OTHER if v is OTHER or v is None else UNT

    def _prop_types(self, v: OV, name: str) -> frozenset:
        out = set()
        for q in v.types:
            c = self.prog.classes.get(q)
            if c is None:
                continue
            f = self.prog.lookup(c, name)
            if f is not None:
                tv = self.an.te.from_annotation(f.module, f.node.returns, f, c)
                out |= set(tv.classes)
        return frozenset(out)

    def member(self, v: OV, name: str, node, call):
        """property or method of a projective object: opaque projective result, or the degree of a numeric result by re-analysis"""
        impls = []
        for q in v.types:
            c = self.prog.classes.get(q)
            if c is None:
                continue
            for k in [c] + self.prog.subclasses(c, strict=True):
                f = self.prog.lookup(k, name)
                if f is not None and f not in impls:
                    impls.append(f)
        if not impls:
            for c in self.prog.classes.values():
                if name in c.methods and self.an.proj_root is not None and self.prog.is_subclass(c, self.an.proj_root) and c.methods[name] not in impls:
                    impls.append(c.methods[name])
        if not impls and call is None:
            for q in (v.types or [c.qualname for c in self.prog.classes.values() if name in c.annotations]):
                c = self.prog.classes.get(q)
                if c is None:
                    continue
                for k in [c] + self.prog.subclasses(c, strict=True):
                    ann = self.prog.class_annotation(k, name)
                    if ann is not None:
                        tv = self.an.te.from_annotation(k.module, ann)
                        if tv.classes and self.an.is_projective(tv.classes):
                            return H.opaque(f"{name}({v.label})", tv.classes)
        if not impls:
            return TOP(f"unknown member .{name}") if call is not None else TOP(f"unknown attribute .{name}")
        if call is None and not all(f.is_property for f in impls):
            return OTHER
        out = None
        for f in impls[:6]:
            tv = self.an.te.from_annotation(f.module, f.node.returns, f, f.cls)
            argl = ("," + ",".join(lab(a) for a in call[0])) if call is not None and call[0] else ""
            if tv.classes and self.an.is_projective(tv.classes):
                r = H.opaque(f"{name}({v.label}{argl})"[:160], tv.classes)
            elif tv.elem is not None and tv.elem.classes and self.an.is_projective(tv.elem.classes):
                r = LV(elem=H.opaque(f"{name}({v.label}{argl})[]"[:160], tv.elem.classes))
            else:
                src = ast.unparse(f.node.returns) if f.node.returns is not None else ""
                if "bool" in src:
                    r = HV(proj=True)
                else:
                    r = self.call_fn(f, v, call, node)
            out = join_val(out, r)
        return out

    def e_Subscript(self, e):
        v = self.ev(e.value)
        idx = e.slice
        if isinstance(v, OV):
            return v
        if isinstance(v, LV):
            if v.items is not None and isinstance(idx, ast.Constant) and isinstance(idx.value, int) and -len(v.items) <= idx.value < len(v.items):
                x = v.items[idx.value]
                return x[1] if isinstance(x, tuple) and x and x[0] == "star" else x
            if isinstance(idx, ast.Slice):
                return LV(elem=elem_of(v))
            return elem_of(v)
        if isinstance(v, HV):
            if v.items is not None:
                if isinstance(idx, ast.Constant) and isinstance(idx.value, int) and -len(v.items) <= idx.value < len(v.items):
                    return v.items[idx.value]
                return as_hv(elem_of(v))
            comps = idx.elts if isinstance(idx, ast.Tuple) else [idx]
            self_idx = [self.ev(c) for c in comps if not isinstance(c, (ast.Slice, ast.Constant))]
            if v.parts is not None:
                # [..., k, :] selects a row of the structured axis
                if len(comps) >= 2 and isinstance(comps[-1], ast.Slice) and isinstance(comps[-2], ast.Constant) and isinstance(comps[-2].value, int):
                    k = comps[-2].value
                    if -len(v.parts) <= k < len(v.parts):
                        return replace(v.parts[k], proj=True)
                if len(comps) == 1 and isinstance(comps[0], ast.Constant) and isinstance(comps[0].value, int) and -len(v.parts) <= comps[0].value < len(v.parts):
                    return replace(v.parts[comps[0].value], proj=True)
                if all(isinstance(c, ast.Slice) or (isinstance(c, ast.Constant) and c.value is Ellipsis) for c in comps[:-1]) and len(comps) >= 1:
                    return v
                j = None
                for p in v.parts:
                    j = H.join(j, p)
                return j
            if v.cols is not None:
                last = comps[-1] if comps else None
                if isinstance(last, ast.Slice) and last.lower is None and last.upper is None:
                    return v
                return TOP("component of a column-structured vector")
            # dropping the homogenising coordinate keeps affine weights: [..., :-1]
            return v
        return OTHER

    # ---- calls
    def e_Call(self, e):
        f = e.func
        args = [self.ev(a) for a in e.args]
        kws = {k.arg: self.ev(k.value) for k in e.keywords if k.arg}
        if isinstance(f, ast.Name):
            return self.call_name(e, f.id, args, kws)
        if isinstance(f, ast.Attribute):
            t = self.prog.resolve_expr_name(self.fn.module, f, self.fn) if not self._local_root(f) else None
            if t is not None and t.startswith("numpy."):
                return self.np_call(e, t[len("numpy."):], args, kws)
            if t is not None and t.split(".")[0] in ("math", "cmath"):
                return UNT
            if t in self.prog.functions:
                fn2 = self.prog.functions[t]
                return self.pkg_call(e, fn2, None, args, kws)
            base_t = self.prog.resolve_expr_name(self.fn.module, f.value, self.fn) if not self._local_root(f.value) else None
            if base_t in self.prog.classes:
                return self.class_call(e, self.prog.classes[base_t], f.attr, args, kws)
            if isinstance(f.value, ast.Call) and isinstance(f.value.func, ast.Name) and f.value.func.id == "super":
                recv = self.env.get(self.fn.params()[0].arg) if self.fn.params() else None
                if f.attr in ("__init__", "__new__"):
                    for a in args:
                        h = a if isinstance(a, HV) else None
                        if h is not None and h.mixed and h.deg and not any(sy.split("@")[0].split("#")[0] in ("self",) for sy, _q, _c in h.deg):
                            self.an.sink("E5.object", self.fn, self.cur_stmt(e), VIOLATION,
                                         f"`{ast.unparse(e)[:80]}` builds the object from an array that is not homogeneous: {h.mixed}; the object "
                                         f"depends on the representative of the argument, not on the argument", {"mixed": h.mixed})
                    return OTHER
                if isinstance(recv, OV):
                    return self.method(e, recv, f.attr, args, kws)
                return OTHER
            recv = self.ev(f.value)
            return self.method(e, recv, f.attr, args, kws)
        return OTHER

    def flat_args(self, args):
        out = []
        for a in args:
            if isinstance(a, tuple) and a and a[0] == "star":
                v = a[1]
                if isinstance(v, LV) and v.items is not None:
                    out += list(v.items)
                elif isinstance(v, HV) and v.items is not None:
                    out += list(v.items)
                else:
                    out.append(("star", v))
            else:
                out.append(a)
        return out

    def call_name(self, e, name, args, kws):
        if name in self.env:
            return OTHER
        t = self.prog.resolve_name(self.fn.module, name, self.fn)
        if t in self.prog.functions:
            return self.pkg_call(e, self.prog.functions[t], None, args, kws)
        if t in self.prog.classes:
            return self.construct(e, self.prog.classes[t], args, kws)
        if t is not None and t.startswith("numpy."):
            return self.np_call(e, t[len("numpy."):], args, kws)
        if name in ("list", "tuple", "sorted", "reversed"):
            return args[0] if args and isinstance(args[0], LV) else (LV(elem=elem_of(args[0])) if args else LV(items=()))
        if name == "cast" and len(args) == 2:
            return args[1]
        if name == "abs" and args:
            return self.P(H.absval(as_hv(args[0])), as_hv(args[0]))
        if name == "sum" and args:
            el = as_hv(elem_of(args[0]))
            if el.top:
                return el
            if el.tainted and H.has_generic(el) and not el.mixed:
                return replace(el, aff=None, mixed="sum over the vertices of raw homogeneous coordinates, each of which has its own scale", proj=True)
            return el
        if name in ("len", "range", "isinstance", "int", "float", "bool", "str", "type", "hasattr", "getattr", "min", "max", "round", "enumerate", "zip",
                    "print", "any", "all", "slice", "super", "complex"):
            if name in ("min", "max") and args and as_hv(elem_of(args[0]) if isinstance(args[0], LV) else args[0]).tainted:
                return TOP("python min/max of tainted data")
            return UNT if name not in ("enumerate", "zip") else LV(elem=LV(elem=join_val(None, elem_of(args[-1]) if args else UNT)))
        if name == "csqrt" or (t or "").endswith(".sqrt"):
            return self.P(H.sqrt(as_hv(args[0])), as_hv(args[0])) if args else UNT
        if t is not None and t.startswith("itertools."):
            return LV(elem=LV(elem=elem_of(args[0]) if args else UNT))
        if t is not None and t.split(".")[0] in ("math", "cmath"):
            return UNT
        return OTHER

    # ---- numpy
    def np_call(self, e, name, args, kws):
        args = self.flat_args(args)
        hvs = [as_hv(a[1] if isinstance(a, tuple) and a and a[0] == "star" else a) for a in args]
        if name not in ("stack", "concatenate", "array", "asarray", "column_stack", "vstack", "hstack", "asanyarray", "broadcast_arrays"):
            hvs = [collapse(h) for h in hvs]
        a0 = hvs[0] if hvs else UNT
        raw0 = args[0] if args else None
        axis = kws.get("axis")
        axis_c = axis.const if isinstance(axis, HV) else None
        if axis is None and len(e.args) >= 2 and name in ("stack", "concatenate", "sum", "mean", "average", "prod", "min", "max", "all", "any", "roll", "flip", "expand_dims", "squeeze", "append"):
            pos = {"roll": 2, "append": 2}.get(name, 1)
            if len(e.args) > pos:
                axis_c = const_value(e.args[pos])
        if name in ("stack", "concatenate", "array", "asarray", "column_stack", "vstack", "hstack", "asanyarray"):
            items = None
            if isinstance(raw0, LV) and raw0.items is not None:
                items = [as_hv(x[1] if isinstance(x, tuple) and x and x[0] == "star" else x) for x in raw0.items]
                if any(isinstance(x, tuple) and x and x[0] == "star" for x in raw0.items):
                    items = None
            elif isinstance(raw0, HV) and raw0.items is not None:
                items = list(raw0.items)
            elif isinstance(raw0, HV):
                return raw0
            if items is not None and name == "stack" and axis_c == -2 and items:
                if all(not i.tainted for i in items):
                    return HV(proj=any(i.proj for i in items))
                return HV(parts=tuple(items), proj=True)
            if items is not None and name in ("array", "asarray") and items and all(not i.parts and not i.cols for i in items):
                # rows of a small matrix given as a list: keep them as rows when they are vectors of different maps
                if all(H.same_map(items[0], i) for i in items):
                    return replace(items[0], items=tuple(items), zero=False, const=None)
                if any(i.top for i in items):
                    return TOP(next(i.why for i in items if i.top))
                return HV(parts=tuple(items), items=tuple(items), proj=True)
            el = as_hv(elem_of(raw0)) if raw0 is not None else UNT
            if items is not None:
                el = None
                for i in items:
                    el = H.join(el, i)
                el = el if el is not None else UNT
            return replace(el, parts=None) if isinstance(el, HV) and el.parts and name != "stack" else el
        if name == "broadcast_arrays":
            return LV(items=tuple(args))
        if name in ("abs", "absolute", "linalg.norm"):
            return self.P(H.absval(a0), a0)
        if name in ("lib.scimath.sqrt", "emath.sqrt"):
            name = "sqrt"
        if name in ("sqrt", "cbrt"):
            return self.P(H.power(a0, Fraction(1, 2) if name == "sqrt" else Fraction(1, 3)), a0)
        if name in ("real", "imag", "conj", "conjugate", "real_if_close", "copy", "squeeze", "expand_dims", "swapaxes", "moveaxis", "transpose",
                    "flip", "ascontiguousarray", "negative", "diagonal", "atleast_1d", "atleast_2d", "reshape", "ravel", "tile", "take_along_axis", "delete", "diag",
                    "nan_to_num", "triu", "tril"):
            if name in ("reshape", "ravel", "delete", "tile", "transpose", "swapaxes", "moveaxis") and a0.parts:
                j = None
                for p in a0.parts:
                    j = H.join(j, p)
                return j
            return a0
        if name == "roll":
            if axis_c == -2 and H.has_generic(a0) and not a0.parts and not a0.top:
                return replace(a0, deg=tuple(sorted((s[:-2] + "@w" if s.endswith("@v") else (s[:-2] + "@v" if s.endswith("@w") else s), q, c) for s, q, c in a0.deg)))
            return a0 if not H.has_generic(a0) else TOP("roll along an unknown axis of vertex data")
        if name == "where":
            if len(hvs) == 3:
                return self.P(H.join(hvs[1], hvs[2]) or UNT, hvs[1], hvs[2])
            return UNT
        if name == "append":
            b = hvs[1] if len(hvs) > 1 else UNT
            if H.same_map(a0, b):
                return replace(a0, aff=None)
            if not a0.tainted and not b.tainted:
                return HV(proj=a0.proj or b.proj)
            if a0.top or b.top:
                return TOP(a0.why or b.why)
            if (b.zero or not b.tainted and b.const == 0) or (not b.tainted and isinstance(raw0, HV) and False):
                return a0
            if not b.tainted and self._is_zeros(e.args[1] if len(e.args) > 1 else None):
                return replace(a0, aff=None)
            if not b.tainted and not a0.mixed and not (a0.parts or a0.cols) and not b.zero:
                return replace(a0, aff=None, mixed=f"raw homogeneous coordinates ({a0.describe()}) appended to coordinates that do not scale with them", proj=True)
            return TOP("append of arrays with different degrees")
        if name in ("sum", "mean", "average", "prod", "min", "max", "amin", "amax", "median", "cumsum"):
            v = a0 if not (isinstance(raw0, LV)) else as_hv(elem_of(raw0))
            if v.top:
                return v
            if not v.tainted:
                aff = None
                if v.aff is not None:
                    aff = "N" if name in ("sum", "cumsum") else (v.aff if name in ("mean", "average") else None)
                    if axis_c == -1:
                        aff = None
                return HV(aff=aff, proj=v.proj)
            if name in ("min", "max", "amin", "amax", "median"):
                self.sign_sink(v, e, f"np.{name}")
                return v if all(c == H.EVEN for _s, _q, c in v.deg) else TOP(f"np.{name} of sign-dependent data")
            if name == "prod":
                return TOP("product over an axis of unknown length")
            if axis_c == -1 and not v.parts and not v.cols:
                return replace(v, aff=None)
            if H.has_generic(v) and not v.parts and not v.cols and name in ("sum", "mean", "average"):
                return replace(v, aff=None, mixed=f"np.{name} over the vertices of raw homogeneous coordinates, each of which has its own scale", proj=True)
            if H.has_generic(v) or v.parts or v.cols:
                return TOP(f"np.{name} over vertices of raw coordinates, each with its own scale")
            return replace(v, aff=None)
        if name in ("isclose", "allclose"):
            b = hvs[1] if len(hvs) > 1 else UNT
            self.isclose_sink(a0, b, e)
            return HV(proj=True)
        if name in ("isinf", "isnan", "isreal", "iscomplex", "nonzero", "any", "all", "isscalar", "isfinite", "logical_and", "logical_or", "logical_not",
                    "count_nonzero", "flatnonzero", "iscomplexobj", "isrealobj", "array_equal"):
            return HV(proj=a0.proj or a0.tainted)
        if name in ("sign", "argmax", "argmin", "argsort", "sort"):
            self.sign_sink(a0, e, f"np.{name}")
            return HV(proj=True) if name != "sort" else a0
        if name in ("maximum", "minimum", "fmax", "fmin"):
            b = hvs[1] if len(hvs) > 1 else UNT
            if a0.tainted or b.tainted:
                self.order_sink(a0, b, e.args[0], e.args[1] if len(e.args) > 1 else e.args[0], e)
                return H.join(a0, b) or UNT
            return HV(proj=a0.proj or b.proj)
        if name in ("log", "exp", "cos", "sin", "tan", "arccos", "arcsin", "arctan", "arctan2", "log2", "log10"):
            if any(h.tainted for h in hvs):
                return TOP(f"np.{name} of a quantity that is not of degree 0" if not any(h.top for h in hvs) else next(h.why for h in hvs if h.top))
            return HV(proj=any(h.proj for h in hvs))
        if name in ("cross", "outer", "matmul", "dot", "vdot", "tensordot", "inner", "kron", "multiply"):
            b = hvs[1] if len(hvs) > 1 else UNT
            return self.P(H.mul(a0, b), a0, b)
        if name in ("divide", "true_divide"):
            b = hvs[1] if len(hvs) > 1 else UNT
            return self.P(H.mul(a0, b, -1), a0, b)
        if name in ("add", "subtract"):
            b = hvs[1] if len(hvs) > 1 else UNT
            return self.P(H.add(a0, b, 1 if name == "add" else -1), a0, b)
        if name == "einsum":
            out = UNT
            for h in hvs:
                out = H.mul(out, h)
            return self.P(out, *hvs)
        if name == "linalg.inv":
            return self.P(H.power(a0, -1), a0) if not a0.parts and not a0.cols else TOP("inverse of a structured matrix")
        if name == "linalg.det":
            return self.P(H.det_matrix(a0), a0)
        if name in ("power", "float_power"):
            n = hvs[1].const if len(hvs) > 1 else None
            return self.P(H.power(a0, n), a0)
        if name in ("zeros", "zeros_like"):
            return HV(zero=True, const=0)
        if name in ("ones", "eye", "identity"):
            return HV(ones=True)
        if name in ("ones_like", "empty", "empty_like", "arange", "indices", "triu_indices", "tril_indices", "full",
                    "unravel_index", "ravel_multi_index", "promote_types", "dtype", "issubdtype", "common_type", "spacing", "ndindex", "errstate",
                    "vectorize", "fromfunction", "broadcast", "linspace", "int8", "int_", "float64", "complex128", "bool_"):
            return UNT
        if name in ("frexp",):
            return LV(elem=TOP("mantissa/exponent split") if a0.tainted else UNT)
        if any(h.tainted for h in hvs):
            return TOP(f"np.{name} is outside the vocabulary")
        return HV(proj=any(h.proj for h in hvs))

    def _is_zeros(self, node) -> bool:
        return isinstance(node, ast.Call) and (getattr(node.func, "attr", "") in ("zeros", "zeros_like") or getattr(node.func, "id", "") in ("zeros",))

    def sign_sink(self, v: HV, node, what: str) -> None:
        if not v.tainted:
            return
        text = ast.unparse(node)[:80]
        if v.top or v.parts or v.cols:
            self.an.sink("E5.order", self.fn, self.cur_stmt(node), UNDECIDED, f"`{text}`: {v.describe()}", None)
        elif H.has_generic(v):
            self.an.sink("E5.order", self.fn, self.cur_stmt(node), UNDECIDED, f"`{text}` orders entries that belong to different vertices", None)
        elif all(c == H.EVEN for _s, _q, c in v.deg):
            self.an.sink("E5.order", self.fn, self.cur_stmt(node), PROVEN, f"`{text}` orders magnitudes (sign-free, common positive factor)", None)
        else:
            self.an.sink("E5.order", self.fn, self.cur_stmt(node), VIOLATION,
                         f"{what} on raw homogeneous coordinates ({v.describe()}): the order/sign flips with the sign of the representative", None)

    def isclose_sink(self, a: HV, b: HV, node) -> None:
        if not (a.tainted or b.tainted):
            return
        text = ast.unparse(node)[:80]
        if (b.zero and not b.tainted) or (a.zero and not a.tainted):
            self.an.sink("E5.eq", self.fn, self.cur_stmt(node), PROVEN, f"`{text}` is a zero test (any degree)", None)
        elif a.top or b.top:
            self.an.sink("E5.eq", self.fn, self.cur_stmt(node), UNDECIDED, f"`{text}`: {a.describe()} vs {b.describe()}", None)
        elif H.same_map(a, b):
            self.an.sink("E5.eq", self.fn, self.cur_stmt(node), PROVEN, f"`{text}` compares quantities of equal degree", None)
        elif not a.tainted or not b.tainted:
            t = a if a.tainted else b
            if t.parts or t.cols:
                self.an.sink("E5.eq", self.fn, self.cur_stmt(node), UNDECIDED, f"`{text}`: structured operand", None)
            else:
                self.an.sink("E5.eq", self.fn, self.cur_stmt(node), VIOLATION,
                             f"`{text}` compares raw homogeneous data ({t.describe()}) with a non-zero constant: holds for one representative only", None)
        else:
            self.an.sink("E5.eq", self.fn, self.cur_stmt(node), UNDECIDED, f"`{text}`: {a.describe()} vs {b.describe()}", None)

    # ---- package calls
    UNT_FUNCS = {"crossratio", "dist", "angle", "is_cocircular", "is_perpendicular", "is_coplanar", "is_collinear", "is_concurrent",
                 "is_multiple", "is_numerical_scalar", "is_numerical_dtype", "_point_dist", "normalize_index", "posify_index", "sanitize_index"}
    OBJ_FUNCS = {"join", "meet", "harmonic_set", "translation", "rotation", "reflection", "scaling", "identity", "affine_transform",
                 "infty_hyperplane", "angle_bisectors", "_join_meet_duality"}

    def pkg_call(self, e, fn2: FunctionInfo, recv, args, kws):
        name = fn2.name
        flat = self.flat_args(args)
        hvs = [as_hv(a[1] if isinstance(a, tuple) and a and a[0] == "star" else a) for a in flat]
        if fn2.cls is None:
            if name in self.UNT_FUNCS:
                return HV(proj=True)
            if name in self.OBJ_FUNCS:
                label = f"{name}({','.join(lab(a) for a in flat)})"[:160]
                if name in ("translation", "rotation", "reflection", "scaling", "identity", "affine_transform", "infty_hyperplane"):
                    if name in ("translation", "affine_transform"):
                        r = self.call_fn(fn2, None, (args, kws), e)
                        return r if isinstance(r, OV) else OV(arr=UNT, label=label)
                    return OV(arr=UNT, label=label)
                if name == "angle_bisectors":
                    return LV(elem=H.opaque(label))
                return H.opaque(label)
            if name == "det":
                raw = flat[0] if flat else None
                if isinstance(raw, LV) and raw.items is not None and not any(isinstance(x, tuple) for x in raw.items):
                    return self.P(H.det_rows([as_hv(x) for x in raw.items]), *hvs)
                a0 = hvs[0] if hvs else UNT
                if a0.items is not None and not a0.parts:
                    return self.P(H.det_rows([as_hv(x) for x in a0.items]), a0)
                return self.P(H.det_matrix(a0), a0)
            if name in ("matmul", "outer"):
                a0, b = (hvs + [UNT, UNT])[:2]
                if a0.parts or b.parts or a0.cols or b.cols:
                    if not a0.tainted or not b.tainted:
                        return self.P(H.mul(a0, b), a0, b)
                    return TOP("matrix product of structured arrays")
                return self.P(H.mul(a0, b), a0, b)
            if name == "matvec":
                a0, b = (hvs + [UNT, UNT])[:2]
                return self.P(H.matvec(a0, b), a0, b)
            if name == "inv":
                a0 = hvs[0] if hvs else UNT
                return self.P(H.power(a0, -1), a0) if not (a0.parts or a0.cols) else TOP("inverse of a structured matrix")
            if name in ("hat_matrix",):
                return hvs[0] if hvs else UNT
            if name in ("adjugate", "null_space", "orth"):
                return TOP(f"{name} of raw coordinates") if any(h.tainted for h in hvs) else HV(proj=any(h.proj for h in hvs))
            if name == "distinct":
                return flat[0] if flat else LV(items=())
            if name == "_divide_by_power_of_two":
                return hvs[0] if hvs else UNT
        return self.call_fn(fn2, recv, (args, kws), e)

    def call_fn(self, f: FunctionInfo, recv, call, node):
        """Re-analyse a package function with the actual abstract arguments (polymorphic degrees)."""
        args, kws = call if call is not None else ([], {})
        env = {}
        ps = f.params()
        names = [p.arg for p in ps]
        if f.cls is not None and not f.is_staticmethod and names:
            first = names.pop(0)
            env[first] = recv if recv is not None else OTHER
        flat = self.flat_args(args)
        i = 0
        rest = []
        for a in flat:
            if isinstance(a, tuple) and a and a[0] == "star":
                for nm in names[i:]:
                    env[nm] = a[1] if not isinstance(a[1], LV) else elem_of(a[1])
                rest.append(elem_of(a[1]) if isinstance(a[1], LV) else a[1])
                i = len(names)
                continue
            if i < len(names):
                env[names[i]] = a
                i += 1
            else:
                rest.append(a)
        for k, v in kws.items():
            env[k] = v
        a = f.node.args
        pos = list(a.posonlyargs) + list(a.args)
        defaults = dict(zip([p.arg for p in pos[len(pos) - len(a.defaults):]], a.defaults)) if a.defaults else {}
        for p, d in zip(a.kwonlyargs, a.kw_defaults):
            if d is not None:
                defaults[p.arg] = d
        for nm in [p.arg for p in ps]:
            if nm not in env:
                d = defaults.get(nm)
                env[nm] = None if (isinstance(d, ast.Constant) and d.value is None) else (HV(const=d.value, zero=(d.value == 0)) if isinstance(d, ast.Constant) and isinstance(d.value, (int, float)) and not isinstance(d.value, bool) else UNT)
        if a.vararg:
            env[a.vararg.arg] = LV(items=tuple(rest)) if all(not isinstance(x, tuple) for x in rest) else LV(elem=join_all(rest))
        if a.kwarg:
            env[a.kwarg.arg] = OTHER
        key = (f.qualname, repr(sorted((k, repr(v)) for k, v in env.items())))
        if key in self.an.memo:
            return self.an.memo[key]
        r = self.an.run_fn(f, env)
        self.an.memo[key] = r
        return r

    def class_call(self, e, k: ClassInfo, name: str, args, kws):
        m = self.prog.lookup(k, name)
        if name in ("from_array", "from_tensor"):
            return self.make_object(e, k, args, kws, starred=False)
        if m is None:
            return OTHER
        if m.is_staticmethod:
            if name == "_normalize_array":
                return self.normalize(args[0] if args else UNT)
            return self.pkg_call(e, m, None, args, kws)
        if m.is_classmethod:
            tv = self.an.te.from_annotation(m.module, m.node.returns, m, k)
            if tv.classes and self.an.is_projective(tv.classes):
                return H.opaque(f"{k.name}.{name}({','.join(lab(a) for a in args)})"[:160], tv.classes)
            return OTHER
        if args:
            recv = args[0]
            return self.method(e, recv, name, args[1:], kws)
        return OTHER

    def normalize(self, v):
        h = as_hv(v)
        if h.top:
            return h
        if not h.tainted:
            return HV(aff=Fraction(1), proj=True)
        syms = [s for s, _q, _c in h.deg]
        if h.parts or h.cols:
            if h.parts and all(not p.top and not p.cols for p in h.parts):
                return HV(parts=tuple(HV(aff=Fraction(1), proj=True) for _ in h.parts), proj=True)
            return TOP("normalisation of a structured array")
        # dividing every row by its own last coordinate removes the row's own scale: sound when every symbol is a per-row scale
        if all(H.is_generic(s) or "#" in s for s in syms) or len(syms) == 1:
            return HV(aff=Fraction(1), proj=True)
        return TOP("normalisation of data that depends on several independent scales")

    def method(self, e, recv, name: str, args, kws):
        if isinstance(recv, OV):
            if name in ("contains", "is_tangent", "is_parallel", "is_coplanar", "is_zero", "__eq__"):
                return HV(proj=True)
            if name == "_normalize_array":
                return self.normalize(args[0] if args else UNT)
            if name == "_matrix_transform":
                m = as_hv(args[0]) if args else UNT
                return OV(arr=H.mul(recv.arr, m) if not (recv.arr.parts or recv.arr.cols) else TOP("transform of structured data"),
                          finite=False, types=recv.types, label=f"T({recv.label})")
            if name in ("copy", "expand_dims", "astype", "__getitem__", "__copy__"):
                return recv
            if name in ("join", "meet", "project", "perpendicular", "parallel", "mirror", "tangent", "polar", "apply", "inverse", "intersect",
                        "from_points", "__apply__"):
                label = f"{recv.label}.{name}({','.join(lab(a) for a in args)})"[:160]
                if name == "intersect":
                    return LV(elem=H.opaque(label))
                return H.opaque(label)
            return self.member(recv, name, e, call=(args, kws))
        if isinstance(recv, HV):
            a0 = as_hv(args[0]) if args else UNT
            if name in ("dot", "vdot"):
                return self.P(H.mul(recv, a0), recv, a0)
            if name in ("reshape", "astype", "copy", "squeeze", "transpose", "conj", "conjugate", "ravel", "swapaxes", "flatten", "view", "round", "tolist"):
                if recv.parts and name in ("reshape", "ravel", "flatten", "transpose", "swapaxes"):
                    j = None
                    for p in recv.parts:
                        j = H.join(j, p)
                    return j
                return recv
            if name in ("sum", "mean"):
                return self.np_call(e, name, [recv] + list(args), kws)
            if name in ("any", "all", "nonzero"):
                return HV(proj=recv.proj or recv.tainted)
            if name in ("argmax", "argmin", "argsort", "max", "min"):
                self.sign_sink(recv, e, f".{name}()")
                return HV(proj=True) if name.startswith("arg") else recv
            if not recv.tainted:
                return HV(proj=recv.proj)
            return TOP(f"method .{name}() of a tainted array is outside the vocabulary")
        if isinstance(recv, LV):
            if name in ("append", "extend", "insert"):
                return UNT
            return OTHER
        return OTHER

    # ---- constructors
    def construct(self, e, k: ClassInfo, args, kws):
        if not self.an.is_projective({k.qualname}):
            return OTHER
        starred = any(isinstance(a, tuple) and a and a[0] == "star" for a in args)
        return self.make_object(e, k, args, kws, starred)

    def make_object(self, e, k: ClassInfo, args, kws, starred: bool):
        types = frozenset({k.qualname})
        pointlike = self.prog.find_cls("PointTensor") is not None and self.prog.is_subclass(k, self.prog.cls("PointTensor"))
        if starred and len(args) == 1:
            v = args[0][1]
            ev = elem_of(v) if isinstance(v, LV) else v
            if isinstance(ev, OV):
                return OV(arr=ev.arr, finite=ev.finite, types=types, label=ev.label)  # Point(*[point]) copies the point
            h = as_hv(v)
            text = ast.unparse(e)[:80]
            if pointlike and h.mixed:
                self.an.sink("E5.affine", self.fn, self.cur_stmt(e), VIOLATION,
                             f"`{text}` takes the coordinates of a point from an inhomogeneous combination: {h.mixed}; the point depends on the "
                             f"representatives of the vertices, not on the vertices", {"mixed": h.mixed})
            elif pointlike and h.proj:
                if h.top:
                    self.an.sink("E5.affine", self.fn, self.cur_stmt(e), UNDECIDED, f"`{text}`: affine coordinates {h.describe()}", None)
                elif h.tainted:
                    self.an.sink("E5.affine", self.fn, self.cur_stmt(e), UNDECIDED,
                                 f"`{text}` takes coordinates from raw homogeneous data ({h.describe()}); legitimate when only the direction is used", None)
                elif h.aff is not None and h.aff == Fraction(0):
                    self.an.sink("E5.affine", self.fn, self.cur_stmt(e), PROVEN, f"`{text}`: difference of dehomogenised points (a vector, weight 0)", None)
                elif h.aff is not None and h.aff != Fraction(1):
                    self.an.sink("E5.affine", self.fn, self.cur_stmt(e), VIOLATION,
                                 f"`{text}` builds a point from a combination of dehomogenised vertices with total weight "
                                 f"{'N (a plain sum over the vertices)' if h.aff == 'N' else h.aff} instead of 1: not an affine combination, the "
                                 f"result is not equivariant under translations (correct only when the true value is the origin)", {"weight": str(h.aff)})
                elif h.aff is not None:
                    self.an.sink("E5.affine", self.fn, self.cur_stmt(e), PROVEN, f"`{text}`: affine combination of dehomogenised vertices (weight 1)", None)
            return OV(arr=UNT, finite=True, types=types, label=k.name)
        if len(args) == 1 and not isinstance(args[0], tuple):
            v = args[0]
            if isinstance(v, OV):
                return OV(arr=v.arr, finite=v.finite, types=types, label=v.label)
            h = as_hv(v)
            if h.mixed and self.fn.name not in ("__init__", "__new__"):
                text = ast.unparse(e)[:80]
                ctx = " (reached from " + " <- ".join(q.rsplit(".", 1)[-1] for q in reversed(self.an.stack[:-1])) + ")" if len(self.an.stack) > 1 else ""
                self.an.sink("E5.object", self.fn, self.cur_stmt(e), VIOLATION,
                             f"`{text}` builds a projective object from an array that is not homogeneous: {h.mixed}{ctx}; the object depends on the "
                             f"representative of the argument, not on the argument", {"mixed": h.mixed})
                return OV(arr=TOP("object built from an inhomogeneous array"), types=types, label=f"{k.name}(..)")
            if pointlike and h.tainted and not (h.parts):
                text = ast.unparse(e)[:80]
                if h.top:
                    self.an.sink("E5.object", self.fn, self.cur_stmt(e), UNDECIDED, f"`{text}`: coordinates are {h.describe()}", None)
                else:
                    self.an.sink("E5.object", self.fn, self.cur_stmt(e), PROVEN, f"`{text}`: coordinates are homogeneous ({h.describe()})", None)
            return OV(arr=h, finite=not h.tainted, types=types, label=f"{k.name}(..)")
        if all(isinstance(a, HV) and not a.tainted for a in args):
            return OV(arr=UNT, finite=True, types=types, label=k.name)
        if self.an.is_polytope(types):
            g = None
            for a in args:
                g = H.join(g, as_hv(a))
            return OV(arr=g if g is not None else UNT, finite=True, types=types, label=k.name)
        return H.opaque(f"{k.name}({','.join(lab(a) for a in args)})"[:160], types)


def collapse(h: HV) -> HV:
    """a python list of values used as one array: the join of its items"""
    if h.items is not None and not h.deg and not h.top and not h.parts:
        out = None
        for x in h.items:
            out = H.join(out, as_hv(x))
        return out if out is not None else UNT
    return h


def lab(v) -> str:
    """label of a value for opaque symbols: built from the labels of the operands, never from variable names"""
    if isinstance(v, OV):
        return v.label or v.arr.describe()
    if isinstance(v, HV):
        return v.describe() if v.tainted else "c"
    if isinstance(v, LV):
        if v.items is not None:
            return "[" + ",".join(lab(x[1] if isinstance(x, tuple) and x and x[0] == "star" else x) for x in v.items[:6]) + "]"
        return "[" + lab(v.elem) + "..]"
    if isinstance(v, tuple) and v and v[0] == "star":
        return "*" + lab(v[1])
    return "_"


def join_all(vals):
    out = None
    for v in vals:
        v = v[1] if isinstance(v, tuple) and v and v[0] == "star" else v
        out = join_val(out, v)
    return out if out is not None else UNT


def const_value(node):
    if isinstance(node, ast.Constant) and isinstance(node.value, (int, float)):
        return node.value
    if isinstance(node, ast.UnaryOp) and isinstance(node.op, ast.USub):
        v = const_value(node.operand)
        return -v if v is not None else None
    if isinstance(node, ast.BinOp) and isinstance(node.op, ast.Div):
        a, b = const_value(node.left), const_value(node.right)
        if a is not None and b:
            return Fraction(a) / Fraction(b)
    return None


# ================================================================================================ property-level rules
_AN_CACHE: dict[int, Analyzer] = {}


def get_analyzer(prog: Program) -> Analyzer:
    if getattr(prog, '_cache_an', None) is None:
        an = Analyzer(prog)
        an.crashed = []
        for fn in prog.package_functions():
            if fn.parent is not None:
                continue
            try:
                an.analyse_root(fn)
            except RecursionError:
                an.crashed.append((fn, "recursion limit"))
            except Exception as e:  # noqa: BLE001 - a construct outside the vocabulary must never become a verdict
                an.crashed.append((fn, f"{type(e).__name__}: {e}"))
        prog._cache_an = an
    return prog._cache_an


RULE_TEXT = {
    "E5.order": "every order/sign decision (< <= > >=, sign, argmax/argsort, maximum/minimum) on coordinate data compares quantities that scale "
                "by the same POSITIVE factor when any argument's homogeneous coordinates are multiplied by a non-zero real (equal degree "
                "maps, even/absolute character), or is a zero test / magnitude-vs-tolerance test",
    "E5.eq": "every equality / isclose on coordinate data is a zero test, compares quantities of equal degree, or compares degree-0 quantities",
    "E5.object": "arrays that become point objects are homogeneous: one common degree for all summands (inhomogeneous sums are UNDECIDED)",
    "E5.ret": "numbers returned by measure/metric functions have homogeneity degree 0 in the raw coordinates of every argument",
    "E5.affine": "a point built from dehomogenised vertex coordinates (Point(*E)) is an affine combination (total weight 1) or a vector (weight 0)",
    "E5.eqdunder": "the __eq__ resolved for every concrete projective class decides through the scalar-multiple test, not through coordinate equality",
}


def numeric_return(fn: FunctionInfo) -> bool:
    r = fn.node.returns
    if r is None:
        return False
    src = ast.unparse(r)
    return ("float" in src) and "bool" not in src and "list" not in src and "tuple" not in src


def add_sinks(run: Run, prog: Program, rules: set[str], only_fn=None) -> int:
    an = get_analyzer(prog)
    n = 0
    for rid in sorted(rules):
        if rid in RULE_TEXT and rid not in run.rules:
            run.rule(rid, RULE_TEXT[rid])
    for key, s in sorted(an.sinks.items()):
        if s.rule not in rules:
            continue
        if only_fn is not None and not only_fn(s.fn):
            continue
        n += 1
        run.add(s.rule, s.fn, s.stmt, s.verdict, s.msg, s.loc, s.detail)
    for fn, why in an.crashed:
        if only_fn is None or only_fn(fn.short):
            run.add("E5.order", fn.short, "def " + fn.name, UNDECIDED, f"function left the vocabulary of the engine ({why})", fn.loc)
    return n


def add_returns(run: Run, prog: Program, select, extra_names: set[str] = frozenset()) -> int:
    an = get_analyzer(prog)
    if "E5.ret" not in run.rules:
        run.rule("E5.ret", RULE_TEXT["E5.ret"])
    n = 0
    for fn in prog.package_functions():
        if fn.parent is not None or not (numeric_return(fn) or fn.name in extra_names) or not select(fn):
            continue
        rets = an.returns.get(fn.qualname)
        if rets is None:
            run.add("E5.ret", fn.short, "return", UNDECIDED, "function was not analysed", fn.loc)
            continue
        groups: dict[str, dict] = {}
        for st, v in rets:
            if isinstance(v, OV):
                continue
            n += 1
            g = groups.setdefault(norm_stmt(st), {"loc": f"{fn.module.rel}:{st.lineno}", "p": 0, "u": [], "v": []})
            h = as_hv(v)
            if h.top:
                g["u"].append(h.describe())
            elif h.degree0:
                g["p"] += 1
            else:
                g["v"].append(h.describe())
        for label, g in groups.items():
            tot = g["p"] + len(g["u"]) + len(g["v"])
            if g["v"]:
                run.add("E5.ret", fn.short, label, VIOLATION,
                        f"the returned number scales like {g['v'][0]} when an argument's homogeneous coordinates are rescaled (on {len(g['v'])} of {tot} "
                        f"path(s)): it depends on the representative, not on the projective object", g["loc"], {"degree": g["v"]})
            if g["p"]:
                run.add("E5.ret", fn.short, label + (f" [{g['p']} of {tot} paths]" if tot > g["p"] else ""), PROVEN,
                        "returned number has degree 0 in every argument's raw coordinates", g["loc"])
            if g["u"]:
                run.add("E5.ret", fn.short, label + f" [{len(g['u'])} of {tot} paths]", UNDECIDED, f"returned value is {g['u'][0]}", g["loc"])
    return n


def rule_eq_dunder(run: Run, prog: Program) -> int:
    run.rule("E5.eqdunder", RULE_TEXT["E5.eqdunder"])
    root = prog.find_cls("ProjectiveTensor")
    if root is None:
        return 0
    from geolint import callgraph

    cg = callgraph.build(prog) if "_cg" not in prog.__dict__ else prog.__dict__["_cg"]
    prog.__dict__["_cg"] = cg
    target = prog.find_func("is_multiple")
    n = 0
    verdict_of: dict[str, tuple] = {}
    for c in prog.concrete_subclasses(root):
        eq = prog.lookup(c, "__eq__")
        n += 1
        if eq is None:
            run.add("E5.eqdunder", c.name, "__eq__", VIOLATION, "no __eq__: identity comparison", c.loc)
            continue
        if eq.qualname not in verdict_of:
            reach = cg.reachable(eq)
            if target is not None and target.qualname in reach:
                verdict_of[eq.qualname] = (PROVEN, f"resolves to {eq.short}, which reaches the scalar-multiple test is_multiple")
            else:
                # does anything in its call tree compare coordinates directly?
                direct = False
                for q in reach:
                    f = prog.functions.get(q)
                    if f is None or f.cls is None or not prog.is_subclass(f.cls, prog.cls("Tensor")) and f is not eq:
                        continue
                    if f.name != "__eq__":
                        continue
                    src = ast.unparse(f.node)
                    if "allclose(" in src or "array_equal(" in src or "isclose(" in src:
                        direct = True
                if direct:
                    verdict_of[eq.qualname] = (VIOLATION, f"resolves to {eq.short}, whose call tree compares coordinates (allclose/isclose) and never "
                                                          f"reaches the scalar-multiple test: non-zero multiples of the same coordinates compare unequal")
                else:
                    verdict_of[eq.qualname] = (UNDECIDED, f"resolves to {eq.short}: neither is_multiple nor a coordinate comparison found in its call tree")
        v, msg = verdict_of[eq.qualname]
        run.add("E5.eqdunder", c.name, "__eq__", v, f"{c.name}.__eq__ {msg}", eq.loc)
    return n


def check_crossratio(run: Run, prog: Program) -> None:
    fn = prog.body_of(prog.func("crossratio"))
    n = add_returns(run, prog, lambda f: f is fn, extra_names={"crossratio", fn.name})
    run.floor("return paths of crossratio", n, 3)
