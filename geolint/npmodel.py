"""Aliasing behaviour of the numpy API used by geometer (validated on numpy 1.26.4 with np.shares_memory while designing).

Every name used in the package today is listed; a name that is not listed yields an UNK alias of its array arguments."""

from __future__ import annotations

# behaviour codes
FRESH = "fresh"  # new array, shares nothing
VIEW0 = "view0"  # always a view of argument 0
ALIAS0 = "alias0"  # returns argument 0 itself (or a view) for ordinary input, a copy otherwise
VIEWS = "views"  # list of views of all array arguments
IMM = "imm"  # immutable scalar / tuple of ints / dtype / bool
TUPLE_FRESH = "tuple_fresh"  # tuple of fresh arrays
FUNC = "func"  # returns a callable / context manager / iterator of immutables
ARRAY = "array"  # np.array: depends on copy=
INPLACE0 = "inplace0"  # writes into argument 0
EINSUM = "einsum"

NP_FUNCS = {
    # constructors
    "zeros": FRESH, "ones": FRESH, "empty": FRESH, "eye": FRESH, "identity": FRESH, "full": FRESH, "arange": FRESH,
    "zeros_like": FRESH, "ones_like": FRESH, "empty_like": FRESH, "full_like": FRESH, "indices": FRESH, "linspace": FRESH,
    "fromfunction": FRESH, "array": ARRAY, "copy": FRESH, "diag": FRESH, "tri": FRESH, "triu": FRESH, "tril": FRESH,
    # joining / rearranging (copies)
    "stack": FRESH, "concatenate": FRESH, "append": FRESH, "column_stack": FRESH, "hstack": FRESH, "vstack": FRESH, "tile": FRESH,
    "roll": FRESH, "delete": FRESH, "insert": FRESH, "where": FRESH, "take_along_axis": FRESH, "take": FRESH, "repeat": FRESH,
    "select": FRESH, "choose": FRESH, "sort": FRESH, "unique": FRESH, "pad": FRESH,
    # views
    "swapaxes": VIEW0, "moveaxis": VIEW0, "expand_dims": VIEW0, "squeeze": VIEW0, "reshape": VIEW0, "transpose": VIEW0,
    "flip": VIEW0, "diagonal": VIEW0, "broadcast_to": VIEW0, "rollaxis": VIEW0, "atleast_1d": VIEW0, "atleast_2d": VIEW0,
    "atleast_3d": VIEW0, "real": VIEW0, "imag": VIEW0, "split": VIEW0, "array_split": VIEW0, "flipud": VIEW0, "fliplr": VIEW0,
    "rot90": VIEW0,
    "broadcast_arrays": VIEWS,
    # aliases for ordinary input
    "asarray": ALIAS0, "asanyarray": ALIAS0, "ascontiguousarray": ALIAS0, "real_if_close": ALIAS0, "ravel": ALIAS0,
    "nan_to_num": FRESH,
    # arithmetic / reductions / predicates (fresh unless out= is given, handled by the engine)
    "add": FRESH, "subtract": FRESH, "multiply": FRESH, "divide": FRESH, "true_divide": FRESH, "negative": FRESH, "power": FRESH,
    "abs": FRESH, "absolute": FRESH, "sqrt": FRESH, "cbrt": FRESH, "cos": FRESH, "sin": FRESH, "tan": FRESH, "arccos": FRESH,
    "arcsin": FRESH, "arctan": FRESH, "arctan2": FRESH, "exp": FRESH, "log": FRESH, "sign": FRESH, "maximum": FRESH,
    "minimum": FRESH, "conjugate": FRESH, "conj": FRESH, "ldexp": FRESH, "spacing": FRESH, "floor": FRESH, "ceil": FRESH,
    "round": FRESH, "clip": FRESH, "mod": FRESH, "hypot": FRESH,
    "frexp": TUPLE_FRESH, "modf": TUPLE_FRESH, "divmod": TUPLE_FRESH,
    "sum": FRESH, "prod": FRESH, "mean": FRESH, "average": FRESH, "max": FRESH, "min": FRESH, "amax": FRESH, "amin": FRESH,
    "all": FRESH, "any": FRESH, "argmax": FRESH, "argmin": FRESH, "argsort": FRESH, "cumsum": FRESH, "cumprod": FRESH,
    "count_nonzero": FRESH, "std": FRESH, "var": FRESH, "trace": FRESH,
    "isclose": FRESH, "allclose": IMM, "isinf": FRESH, "isnan": FRESH, "isreal": FRESH, "iscomplex": FRESH, "isfinite": FRESH,
    "logical_and": FRESH, "logical_or": FRESH, "logical_not": FRESH, "equal": FRESH, "not_equal": FRESH, "less": FRESH,
    "greater": FRESH, "array_equal": IMM,
    # linear algebra
    "dot": FRESH, "vdot": FRESH, "matmul": FRESH, "tensordot": FRESH, "cross": FRESH, "outer": FRESH, "inner": FRESH, "kron": FRESH,
    "einsum": EINSUM, "roots": FRESH, "poly": FRESH,
    "linalg.norm": FRESH, "linalg.inv": FRESH, "linalg.det": FRESH, "linalg.solve": FRESH, "linalg.pinv": FRESH,
    "linalg.svd": TUPLE_FRESH, "linalg.qr": TUPLE_FRESH, "linalg.eigvalsh": FRESH, "linalg.eigh": TUPLE_FRESH, "linalg.eig": TUPLE_FRESH,
    "linalg.eigvals": FRESH, "linalg.matrix_rank": IMM, "linalg.lstsq": TUPLE_FRESH, "linalg.cholesky": FRESH,
    # index helpers
    "triu_indices": TUPLE_FRESH, "tril_indices": TUPLE_FRESH, "unravel_index": TUPLE_FRESH, "nonzero": TUPLE_FRESH,
    "ravel_multi_index": FRESH, "flatnonzero": FRESH, "argwhere": FRESH, "ix_": TUPLE_FRESH, "meshgrid": TUPLE_FRESH,
    # scalars / dtypes / predicates on types
    "promote_types": IMM, "dtype": IMM, "issubdtype": IMM, "isscalar": IMM, "common_type": IMM, "result_type": IMM,
    "can_cast": IMM, "shape": IMM, "ndim": IMM, "size": IMM, "iscomplexobj": IMM, "isrealobj": IMM, "shares_memory": IMM,
    "int8": IMM, "int_": IMM, "intp": IMM, "float64": IMM, "complex128": IMM, "bool_": IMM, "int64": IMM, "float32": IMM,
    # callables / iterators / context managers
    "vectorize": FUNC, "errstate": FUNC, "ndindex": FUNC, "broadcast": FUNC, "ndenumerate": FUNC, "nditer": FUNC,
    # in-place procedures
    "copyto": INPLACE0, "put": INPLACE0, "place": INPLACE0, "fill_diagonal": INPLACE0, "putmask": INPLACE0,
    "put_along_axis": INPLACE0,
}

# ndarray methods
ND_VIEW = {"reshape", "transpose", "swapaxes", "squeeze", "view", "diagonal"}
ND_ALIAS = {"ravel", "__array__"}
ND_FRESH = {"copy", "dot", "conj", "conjugate", "sum", "prod", "min", "max", "all", "any", "argmax", "argmin", "argsort", "nonzero",
            "mean", "std", "var", "round", "clip", "flatten", "repeat", "take", "cumsum", "cumprod", "tobytes", "trace", "compress",
            "choose", "searchsorted", "ptp"}
ND_IMM = {"tolist", "item", "tostring", "dump", "dumps"}
ND_INPLACE = {"sort", "fill", "resize", "itemset", "put", "setflags", "partition", "byteswap", "setfield"}
ND_VIEW_ATTRS = {"T", "real", "imag", "flat", "mT"}
ND_IMM_ATTRS = {"shape", "dtype", "ndim", "size", "itemsize", "nbytes", "strides", "flags", "base"}

CONTAINER_MUTATORS = {"append", "extend", "insert", "pop", "remove", "clear", "update", "setdefault", "add", "discard", "sort",
                      "reverse", "popitem", "__setitem__", "__delitem__", "difference_update", "intersection_update"}
CONTAINER_PURE = {"copy", "get", "keys", "values", "items", "index", "count", "union", "intersection", "difference", "issubset", "join"}

MASK_CALLS = {"isclose", "isinf", "isreal", "isnan", "nonzero", "argmax", "argmin", "argsort", "where", "logical_and", "logical_or",
              "logical_not", "indices", "triu_indices", "tril_indices", "unravel_index", "arange", "flatnonzero", "any", "all",
              "contains", "is_zero", "reshape", "array", "asarray", "ravel_multi_index", "squeeze", "ones", "zeros", "is_multiple"}
