"""Thorough tier: systematic mutation sweep. Every site of a few slip-prone constructs is mutated in memory (one mutant per
site) and the property's rules are re-run. The result is exploration data for the evidence file - how many of ALL such
slips the rules see - not a verdict: a silent mutant is either harmless (the value was fresh, the expression is homogeneous
anyway) or a blind spot, and the list is there to be triaged."""

from __future__ import annotations

import ast
import os
from concurrent.futures import ProcessPoolExecutor

from geolint.model import Program
from geolint.report import Run

INPLACE_OPS = {ast.Add: "+", ast.Sub: "-", ast.Mult: "*", ast.Div: "/"}


def _segment(src_lines: list[str], node: ast.AST) -> tuple[int, int, int, int]:
    return node.lineno, node.col_offset, node.end_lineno, node.end_col_offset


def _replace(src: str, node: ast.AST, new: str) -> str:
    lines = src.split("\n")
    l0, c0, l1, c1 = node.lineno - 1, node.col_offset, node.end_lineno - 1, node.end_col_offset
    # col offsets are in utf-8 bytes; the package is ASCII apart from docstrings, which we never touch
    head = lines[l0][:c0]
    tail = lines[l1][c1:]
    lines[l0:l1 + 1] = [head + new + tail]
    return "\n".join(lines)


def mutants_purity(prog: Program) -> list[tuple[str, str, str, str]]:
    """(operator, rel, description, new source)"""
    out = []
    for m in prog.modules.values():
        src = m.source
        for node in ast.walk(m.tree):
            # O1: x = x OP y  ->  x OP= y
            if isinstance(node, ast.Assign) and len(node.targets) == 1 and isinstance(node.targets[0], ast.Name) and isinstance(node.value, ast.BinOp) \
                    and type(node.value.op) in INPLACE_OPS and isinstance(node.value.left, ast.Name) and node.value.left.id == node.targets[0].id:
                new = f"{node.targets[0].id} {INPLACE_OPS[type(node.value.op)]}= {ast.get_source_segment(src, node.value.right)}"
                out.append(("O1 rebinding -> in-place", m.rel, f"{m.rel}:{node.lineno}: {ast.unparse(node)[:60]}", _replace(src, node, new)))
            if isinstance(node, ast.Call):
                f = node.func
                name = f.attr if isinstance(f, ast.Attribute) else getattr(f, "id", "")
                # O2: fresh copy dropped
                if name in ("zeros_like", "empty_like", "copy") and isinstance(f, ast.Attribute) and getattr(f.value, "id", "") in ("np", "numpy") and node.args:
                    out.append(("O2 fresh buffer -> the source array", m.rel, f"{m.rel}:{node.lineno}: {ast.unparse(node)[:60]}",
                                _replace(src, node, ast.get_source_segment(src, node.args[0]))))
                elif name == "copy" and isinstance(f, ast.Attribute) and not node.args and isinstance(f.value, ast.Attribute) and f.value.attr == "array":
                    out.append(("O2 .array.copy() -> .array", m.rel, f"{m.rel}:{node.lineno}: {ast.unparse(node)[:60]}",
                                _replace(src, node, ast.get_source_segment(src, f.value))))
                # O3: astype(T) -> astype(T, copy=False)
                elif name == "astype" and isinstance(f, ast.Attribute) and len(node.args) == 1 and not node.keywords:
                    out.append(("O3 astype(copy=False)", m.rel, f"{m.rel}:{node.lineno}: {ast.unparse(node)[:60]}",
                                _replace(src, node, ast.get_source_segment(src, node)[:-1] + ", copy=False)")))
    return out


def mutants_normalized(prog: Program) -> list[tuple[str, str, str, str]]:
    out = []
    for m in prog.modules.values():
        src = m.source
        for node in ast.walk(m.tree):
            if isinstance(node, ast.Attribute) and node.attr == "normalized_array" and isinstance(node.ctx, ast.Load):
                base = ast.get_source_segment(src, node.value)
                out.append(("O5 normalized_array -> array", m.rel, f"{m.rel}:{node.lineno}: {ast.unparse(node)[:60]}", _replace(src, node, base + ".array")))
    return out


def _eval(args) -> dict:
    root, pid, op, rel, desc, new = args
    from geolint import checks

    try:
        ast.parse(new)
        prog = Program(root=root, sources={rel: new})
        scratch = Run(prop=pid, quiet=True, write_evidence=False)
        checks.REGISTRY[pid](scratch, prog)
        v = scratch.violations()
        return {"operator": op, "site": desc, "reported": bool(v), "by": f"{v[0].rule}@{v[0].construct}" if v else ""}
    except Exception as e:  # noqa: BLE001
        return {"operator": op, "site": desc, "reported": False, "by": f"crash: {type(e).__name__}: {e}"}


SWEEPS = {"C12": mutants_purity, "C03": mutants_normalized, "C17": mutants_normalized}


def run(run: Run, prog: Program, seed: int) -> None:
    gen = SWEEPS.get(run.prop)
    if gen is None:
        return
    ms = gen(prog)
    jobs = [(prog.root, run.prop, op, rel, desc, new) for op, rel, desc, new in ms]
    if not jobs:
        return
    with ProcessPoolExecutor(max_workers=min(16, os.cpu_count() or 1, len(jobs))) as ex:
        results = list(ex.map(_eval, jobs))
    by_op: dict[str, list[int]] = {}
    for r in results:
        c = by_op.setdefault(r["operator"], [0, 0])
        c[0] += 1
        c[1] += 1 if r["reported"] else 0
    crashes = [r for r in results if r["by"].startswith("crash")]
    for r in crashes:
        run.error(f"sweep mutant crashed the checker: {r['site']}: {r['by']}")
    run.stats["sweep"] = {
        "what": "one mutant per site of each operator, rules of this property re-run on each; 'reported' counts mutants with a VIOLATION. Silent "
                "mutants are harmless edits (fresh data, homogeneous expressions) or blind spots; they are listed, not judged",
        "mutants": len(results),
        "per_operator": {k: {"mutants": v[0], "reported": v[1]} for k, v in by_op.items()},
        "reported_sites": [f"{r['site']} -> {r['by']}" for r in results if r["reported"]][:60],
        "silent_sites": [r["site"] for r in results if not r["reported"]][:80],
    }


# ---------------------------------------------------------------------------------------------- metamorphic stability
def _meta_eval(args) -> dict:
    root, pid, op = args
    from geolint import checks, metamorph

    try:
        base = Program(root=root)
        srcs, sites = {}, 0
        for m in base.modules.values():
            new, k = metamorph.transform(m.source, op)
            if k:
                srcs[m.rel] = new
                sites += k
        prog = Program(root=root, sources=srcs)
        scratch = Run(prop=pid, quiet=True, write_evidence=False)
        checks.REGISTRY[pid](scratch, prog)
        from geolint.report import PROVEN, UNDECIDED

        return {"operator": op, "sites": sites, "violations": [f"{o.rule}@{o.construct}: {o.stmt[:60]}" for o in scratch.violations()],
                "errors": scratch.errors[:3], "proven": sum(1 for o in scratch.obligations if o.verdict == PROVEN),
                "undecided": sum(1 for o in scratch.obligations if o.verdict == UNDECIDED)}
    except Exception as e:  # noqa: BLE001
        return {"operator": op, "sites": 0, "violations": [], "errors": [f"crash: {type(e).__name__}: {e}"], "proven": 0, "undecided": 0}


def run_metamorphic(run: Run, prog: Program) -> None:
    """Thorough tier: the rules of this property are re-run on semantics-preserving rewrites of the whole package (one tree per
    operator of geolint/metamorph.py, in memory). A verdict that differs from the one on the tree as written shows that a rule
    reads the spelling of a statement; it is reported in the evidence (and as a NOTE line), never as a violation of the property."""
    from geolint import metamorph
    from geolint.report import PROVEN, UNDECIDED

    ops = [o for o in metamorph.OPERATORS]
    jobs = [(prog.root, run.prop, op) for op in ops]
    with ProcessPoolExecutor(max_workers=min(16, os.cpu_count() or 1, len(jobs))) as ex:
        results = list(ex.map(_meta_eval, jobs))
    base_viol = {f"{o.rule}@{o.construct}: {o.stmt[:60]}" for o in run.violations()}
    base_proven = sum(1 for o in run.obligations if o.verdict == PROVEN)
    unstable = []
    for r in results:
        extra = [v for v in r["violations"] if v not in base_viol]
        if (extra and not base_viol) or r["errors"]:
            unstable.append({"operator": r["operator"], "new_violations": extra[:5], "errors": r["errors"]})
    run.stats["metamorphic"] = {
        "what": "rules of this property re-run on behaviour-preserving rewrites of the whole package (geolint/metamorph.py); a stable rule "
                "gives no violation that the tree as written does not give. `proven`/`undecided` show how much of the proof survives the rewrite",
        "proven_on_tree_as_written": base_proven,
        "per_operator": {r["operator"]: {"sites_rewritten": r["sites"], "violations": len(r["violations"]), "proven": r["proven"], "undecided": r["undecided"]}
                         for r in results},
        "unstable": unstable,
    }
    for u in unstable:
        print(f"NOTE metamorphic instability property={run.prop} operator={u['operator']}: {u['new_violations'] or u['errors']}")
