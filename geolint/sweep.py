"""Thorough tier: systematic mutation sweep. Every site of a few slip-prone constructs is mutated in memory (one mutant per
site) and the property's rules are re-run. The result is exploration data for the evidence file - how many of ALL such
slips the rules see - not a verdict: a silent mutant is either harmless (the value was fresh, the expression is homogeneous
anyway) or a blind spot, and the list is there to be triaged."""

from __future__ import annotations

import ast
import os
from concurrent.futures import ProcessPoolExecutor

from geolint.model import Program
from geolint.report import Run

INPLACE_OPS = {ast.Add: "+", ast.Sub: "-", ast.Mult: "*", ast.Div: "/"}


def _segment(src_lines: list[str], node: ast.AST) -> tuple[int, int, int, int]:
    return node.lineno, node.col_offset, node.end_lineno, node.end_col_offset


def _replace(src: str, node: ast.AST, new: str) -> str:
    lines = src.split("\n")
    l0, c0, l1, c1 = node.lineno - 1, node.col_offset, node.end_lineno - 1, node.end_col_offset
    # col offsets are in utf-8 bytes; the package is ASCII apart from docstrings, which we never touch
    head = lines[l0][:c0]
    tail = lines[l1][c1:]
    lines[l0:l1 + 1] = [head + new + tail]
    return "\n".join(lines)


def mutants_purity(prog: Program) -> list[tuple[str, str, str, str]]:
    """(operator, rel, description, new source)"""
    out = []
    for m in prog.modules.values():
        src = m.source
        for node in ast.walk(m.tree):
            # O1: x = x OP y  ->  x OP= y
            if isinstance(node, ast.Assign) and len(node.targets) == 1 and isinstance(node.targets[0], ast.Name) and isinstance(node.value, ast.BinOp) \
                    and type(node.value.op) in INPLACE_OPS and isinstance(node.value.left, ast.Name) and node.value.left.id == node.targets[0].id:
                new = f"{node.targets[0].id} {INPLACE_OPS[type(node.value.op)]}= {ast.get_source_segment(src, node.value.right)}"
                out.append(("O1 rebinding -> in-place", m.rel, f"{m.rel}:{node.lineno}: {ast.unparse(node)[:60]}", _replace(src, node, new)))
            if isinstance(node, ast.Call):
                f = node.func
                name = f.attr if isinstance(f, ast.Attribute) else getattr(f, "id", "")
                # O2: fresh copy dropped
                if name in ("zeros_like", "empty_like", "copy") and isinstance(f, ast.Attribute) and getattr(f.value, "id", "") in ("np", "numpy") and node.args:
                    out.append(("O2 fresh buffer -> the source array", m.rel, f"{m.rel}:{node.lineno}: {ast.unparse(node)[:60]}",
                                _replace(src, node, ast.get_source_segment(src, node.args[0]))))
                elif name == "copy" and isinstance(f, ast.Attribute) and not node.args and isinstance(f.value, ast.Attribute) and f.value.attr == "array":
                    out.append(("O2 .array.copy() -> .array", m.rel, f"{m.rel}:{node.lineno}: {ast.unparse(node)[:60]}",
                                _replace(src, node, ast.get_source_segment(src, f.value))))
                # O3: astype(T) -> astype(T, copy=False)
                elif name == "astype" and isinstance(f, ast.Attribute) and len(node.args) == 1 and not node.keywords:
                    out.append(("O3 astype(copy=False)", m.rel, f"{m.rel}:{node.lineno}: {ast.unparse(node)[:60]}",
                                _replace(src, node, ast.get_source_segment(src, node)[:-1] + ", copy=False)")))
    return out


def mutants_normalized(prog: Program) -> list[tuple[str, str, str, str]]:
    out = []
    for m in prog.modules.values():
        src = m.source
        for node in ast.walk(m.tree):
            if isinstance(node, ast.Attribute) and node.attr == "normalized_array" and isinstance(node.ctx, ast.Load):
                base = ast.get_source_segment(src, node.value)
                out.append(("O5 normalized_array -> array", m.rel, f"{m.rel}:{node.lineno}: {ast.unparse(node)[:60]}", _replace(src, node, base + ".array")))
    return out


def _eval(args) -> dict:
    root, pid, op, rel, desc, new = args
    from geolint import checks

    try:
        ast.parse(new)
        prog = Program(root=root, sources={rel: new})
        scratch = Run(prop=pid, quiet=True, write_evidence=False)
        checks.REGISTRY[pid](scratch, prog)
        v = scratch.new_violations()
        return {"operator": op, "site": desc, "reported": bool(v), "by": f"{v[0].rule}@{v[0].construct}" if v else ""}
    except Exception as e:  # noqa: BLE001
        return {"operator": op, "site": desc, "reported": False, "by": f"crash: {type(e).__name__}: {e}"}


CMP_ALT = {ast.LtE: ["<", ">="], ast.GtE: [">", "<="], ast.Lt: ["<=", ">"], ast.Gt: [">=", "<"]}
CMP_SRC = {ast.LtE: "<=", ast.GtE: ">=", ast.Lt: "<", ast.Gt: ">"}


def _functions_named(m, names: set[str]):
    for node in ast.walk(m.tree):
        if isinstance(node, ast.FunctionDef) and node.name in names:
            yield node


def mutants_comparisons(prog: Program) -> list[tuple[str, str, str, str]]:
    """O6: every order comparison inside the membership tests replaced by its strict/non-strict twin and by its mirror image"""
    out = []
    for m in prog.modules.values():
        if not m.rel.endswith("shapes.py"):
            continue
        src = m.source
        for fn in _functions_named(m, {"contains"}):
            for node in ast.walk(fn):
                if isinstance(node, ast.Compare) and len(node.ops) == 1 and type(node.ops[0]) in CMP_ALT:
                    l = ast.get_source_segment(src, node.left)
                    r = ast.get_source_segment(src, node.comparators[0])
                    if l is None or r is None:
                        continue
                    for alt in CMP_ALT[type(node.ops[0])]:
                        out.append((f"O6 comparison {CMP_SRC[type(node.ops[0])]} -> {alt}", m.rel, f"{m.rel}:{node.lineno}: {ast.unparse(node)[:50]} -> {alt}",
                                    _replace(src, node, f"{l} {alt} {r}")))
    return out


def mutants_closed_forms(prog: Program) -> list[tuple[str, str, str, str]]:
    """O7: in det / adjugate / hat_matrix / _minor_indices: every constant index of a matrix entry bumped to the next value, every binary +/- between
    products flipped, every literal index table entry changed, every `axis=` of np.delete changed"""
    out = []
    for m in prog.modules.values():
        if not m.rel.endswith("utils/math.py"):
            continue
        src = m.source
        for fn in _functions_named(m, {"det", "adjugate", "hat_matrix", "_minor_indices", "inv"}):
            for node in ast.walk(fn):
                if isinstance(node, ast.Subscript) and isinstance(node.slice, ast.Tuple) and isinstance(node.value, ast.Name) and node.value.id == "A":
                    for k, e in enumerate(node.slice.elts):
                        if isinstance(e, ast.Constant) and isinstance(e.value, int) and not isinstance(e.value, bool):
                            new = (e.value + 1) % 3 if fn.name == "det" else 1 - e.value
                            out.append(("O7 entry index changed", m.rel, f"{m.rel}:{node.lineno}: {ast.unparse(node)} index {k} -> {new}", _replace(src, e, str(new))))
                if fn.name == "det" and isinstance(node, ast.BinOp) and isinstance(node.op, (ast.Add, ast.Sub)):
                    l = ast.get_source_segment(src, node.left)
                    r = ast.get_source_segment(src, node.right)
                    if l and r:
                        op = "-" if isinstance(node.op, ast.Add) else "+"
                        out.append(("O7 sign of a term flipped", m.rel, f"{m.rel}:{node.lineno}: ... {op} {ast.unparse(node.right)[:40]}", _replace(src, node, f"{l} {op} {r}")))
                if isinstance(node, ast.List) and node.elts and all(isinstance(x, ast.Constant) and isinstance(x.value, int) for x in node.elts) and len(node.elts) <= 3:
                    for k, e in enumerate(node.elts):
                        new = (e.value + 1) % max(2, len(node.elts))
                        out.append(("O7 index table entry changed", m.rel, f"{m.rel}:{node.lineno}: {ast.unparse(node)} entry {k} -> {new}", _replace(src, e, str(new))))
                if isinstance(node, ast.keyword) and node.arg == "axis" and isinstance(node.value, ast.Constant) and fn.name == "_minor_indices":
                    out.append(("O7 deleted axis changed", m.rel, f"{m.rel}:{node.value.lineno}: axis={node.value.value} -> {3 - node.value.value}",
                                _replace(src, node.value, str(3 - node.value.value))))
                if isinstance(node, ast.Slice) and fn.name == "adjugate" and node.lower is not None and isinstance(node.lower, ast.Constant):
                    out.append(("O7 sign-pattern slice start changed", m.rel, f"{m.rel}:{node.lower.lineno}: start {node.lower.value} -> {1 - node.lower.value}",
                                _replace(src, node.lower, str(1 - node.lower.value))))
    return out


def mutants_measures(prog: Program) -> list[tuple[str, str, str, str]]:
    """O8: numeric constants and exponents in the measure members changed by one"""
    out = []
    for m in prog.modules.values():
        if not m.rel.endswith("curve.py"):
            continue
        src = m.source
        for fn in _functions_named(m, {"area", "volume", "_alpha"}):
            for node in ast.walk(fn):
                if isinstance(node, ast.Constant) and isinstance(node.value, int) and not isinstance(node.value, bool):
                    out.append(("O8 constant + 1", m.rel, f"{m.rel}:{node.lineno}: {fn.name}: {node.value} -> {node.value + 1}", _replace(src, node, str(node.value + 1))))
                if isinstance(node, ast.BinOp) and isinstance(node.op, ast.Pow):
                    r = ast.get_source_segment(src, node.right)
                    if r:
                        out.append(("O8 exponent + 1", m.rel, f"{m.rel}:{node.lineno}: {fn.name}: ** {r} -> ** ({r} + 1)", _replace(src, node.right, f"({r} + 1)")))
    return out


def mutants_quadric_ctors(prog: Program) -> list[tuple[str, str, str, str]]:
    """O10: in the constructors of the parametrised quadrics every + / - and * / / exchanged, every unary minus dropped, every integer
    constant (indices, exponents) bumped"""
    out = []
    for m in prog.modules.values():
        if not m.rel.endswith("curve.py"):
            continue
        src = m.source
        for cls in ast.walk(m.tree):
            if not (isinstance(cls, ast.ClassDef) and cls.name in ("Sphere", "Ellipse", "Circle", "Cone", "Cylinder")):
                continue
            for fn in cls.body:
                if not (isinstance(fn, ast.FunctionDef) and fn.name == "__init__"):
                    continue
                for node in ast.walk(fn):
                    where = f"{m.rel}:{getattr(node, 'lineno', fn.lineno)}: {cls.name}.__init__"
                    if isinstance(node, ast.BinOp) and isinstance(node.op, (ast.Add, ast.Sub, ast.Mult, ast.Div)):
                        l, r = ast.get_source_segment(src, node.left), ast.get_source_segment(src, node.right)
                        if l and r:
                            op = {ast.Add: "-", ast.Sub: "+", ast.Mult: "/", ast.Div: "*"}[type(node.op)]
                            out.append(("O10 arithmetic operator exchanged", m.rel, f"{where}: {ast.unparse(node)[:50]} -> {op}", _replace(src, node, f"{l} {op} {r}")))
                    if isinstance(node, ast.UnaryOp) and isinstance(node.op, ast.USub) and not isinstance(node.operand, ast.Constant):
                        inner = ast.get_source_segment(src, node.operand)
                        if inner:
                            out.append(("O10 unary minus dropped", m.rel, f"{where}: {ast.unparse(node)[:50]}", _replace(src, node, inner)))
                    if isinstance(node, ast.Constant) and isinstance(node.value, int) and not isinstance(node.value, bool):
                        out.append(("O10 integer constant + 1", m.rel, f"{where}: {node.value} -> {node.value + 1}", _replace(src, node, str(node.value + 1))))
    return out


def mutants_c13(prog: Program) -> list[tuple[str, str, str, str]]:
    return mutants_measures(prog) + mutants_quadric_ctors(prog)


SIBLINGS = {"a": "b", "b": "a", "m1": "m2", "m2": "m1", "d1": "d2", "d2": "d1", "t1": "t2", "t2": "t1", "a1": "a2", "b1": "b2", "c1": "c2", "u": "v", "v": "u"}


def mutants_constructors(prog: Program) -> list[tuple[str, str, str, str]]:
    """O9: in the transformation constructors every + / - and * / / exchanged, every unary minus dropped, every integer constant bumped,
    every cos/sin exchanged, every local replaced by its sibling (m1/m2, d1/d2, ...), every index -1 replaced by 0"""
    out = []
    names = {"affine_transform", "rotation", "translation", "scaling", "reflection", "from_points", "from_points_and_conics"}
    for m in prog.modules.values():
        if not m.rel.endswith("transformation.py"):
            continue
        src = m.source
        for fn in _functions_named(m, names):
            doc = ast.get_docstring(fn)
            for node in ast.walk(fn):
                where = f"{m.rel}:{getattr(node, 'lineno', fn.lineno)}: {fn.name}"
                if isinstance(node, ast.BinOp) and isinstance(node.op, (ast.Add, ast.Sub, ast.Mult, ast.Div)):
                    l, r = ast.get_source_segment(src, node.left), ast.get_source_segment(src, node.right)
                    if l and r:
                        op = {ast.Add: "-", ast.Sub: "+", ast.Mult: "/", ast.Div: "*"}[type(node.op)]
                        out.append(("O9 arithmetic operator exchanged", m.rel, f"{where}: {ast.unparse(node)[:50]} -> {op}", _replace(src, node, f"{l} {op} {r}")))
                if isinstance(node, ast.UnaryOp) and isinstance(node.op, ast.USub) and not isinstance(node.operand, ast.Constant):
                    inner = ast.get_source_segment(src, node.operand)
                    if inner:
                        out.append(("O9 unary minus dropped", m.rel, f"{where}: {ast.unparse(node)[:50]}", _replace(src, node, inner)))
                if isinstance(node, ast.Constant) and isinstance(node.value, int) and not isinstance(node.value, bool) and (doc is None or node.value != doc):
                    out.append(("O9 integer constant + 1", m.rel, f"{where}: {node.value} -> {node.value + 1}", _replace(src, node, str(node.value + 1))))
                if isinstance(node, ast.Attribute) and node.attr in ("cos", "sin") and isinstance(node.value, ast.Name) and node.value.id == "np":
                    other = "sin" if node.attr == "cos" else "cos"
                    out.append(("O9 cos/sin exchanged", m.rel, f"{where}: np.{node.attr} -> np.{other}", _replace(src, node, f"np.{other}")))
                if isinstance(node, ast.Name) and isinstance(node.ctx, ast.Load) and node.id in SIBLINGS and fn.name in ("from_points", "from_points_and_conics", "rotation"):
                    out.append(("O9 local replaced by its sibling", m.rel, f"{where}: {node.id} -> {SIBLINGS[node.id]} (col {node.col_offset})", _replace(src, node, SIBLINGS[node.id])))
    return out


SWEEPS = {"C08": mutants_constructors, "C12": mutants_purity, "C03": mutants_normalized, "C17": mutants_normalized, "C16": mutants_comparisons, "C20": mutants_closed_forms,
          "C13": mutants_c13}


def run(run: Run, prog: Program, seed: int) -> None:
    gen = SWEEPS.get(run.prop)
    if gen is None:
        return
    ms = gen(prog)
    jobs = [(prog.root, run.prop, op, rel, desc, new) for op, rel, desc, new in ms]
    if not jobs:
        return
    with ProcessPoolExecutor(max_workers=min(16, os.cpu_count() or 1, len(jobs))) as ex:
        results = list(ex.map(_eval, jobs))
    by_op: dict[str, list[int]] = {}
    for r in results:
        c = by_op.setdefault(r["operator"], [0, 0])
        c[0] += 1
        c[1] += 1 if r["reported"] else 0
    crashes = [r for r in results if r["by"].startswith("crash")]
    for r in crashes:
        run.error(f"sweep mutant crashed the checker: {r['site']}: {r['by']}")
    run.stats["sweep"] = {
        "what": "one mutant per site of each operator, rules of this property re-run on each; 'reported' counts mutants with a VIOLATION. Silent "
                "mutants are harmless edits (fresh data, homogeneous expressions) or blind spots; they are listed, not judged",
        "mutants": len(results),
        "per_operator": {k: {"mutants": v[0], "reported": v[1]} for k, v in by_op.items()},
        "reported_sites": [f"{r['site']} -> {r['by']}" for r in results if r["reported"]][:60],
        "silent_sites": [r["site"] for r in results if not r["reported"]][:80],
    }


# ---------------------------------------------------------------------------------------------- metamorphic stability
def _meta_eval(args) -> dict:
    root, pid, op = args
    from geolint import checks, metamorph

    try:
        base = Program(root=root)
        srcs, sites = {}, 0
        for m in base.modules.values():
            new, k = metamorph.transform(m.source, op)
            if k:
                srcs[m.rel] = new
                sites += k
        prog = Program(root=root, sources=srcs)
        scratch = Run(prop=pid, quiet=True, write_evidence=False)
        checks.REGISTRY[pid](scratch, prog)
        from geolint.report import PROVEN, UNDECIDED

        return {"operator": op, "sites": sites, "violations": [f"{o.rule}@{o.construct}: {o.stmt[:60]}" for o in scratch.new_violations()],
                "errors": scratch.errors[:3], "proven": sum(1 for o in scratch.obligations if o.verdict == PROVEN),
                "undecided": sum(1 for o in scratch.obligations if o.verdict == UNDECIDED),
                "undecided_why": sorted({f"{o.rule}: {o.message[:90]}" for o in scratch.obligations if o.verdict == UNDECIDED})[:6]}
    except Exception as e:  # noqa: BLE001
        return {"operator": op, "sites": 0, "violations": [], "errors": [f"crash: {type(e).__name__}: {e}"], "proven": 0, "undecided": 0, "undecided_why": []}


def run_metamorphic(run: Run, prog: Program) -> None:
    """Thorough tier: the rules of this property are re-run on semantics-preserving rewrites of the whole package (one tree per
    operator of geolint/metamorph.py, in memory). A verdict that differs from the one on the tree as written shows that a rule
    reads the spelling of a statement; it is reported in the evidence (and as a NOTE line), never as a violation of the property."""
    from geolint import metamorph
    from geolint.report import PROVEN, UNDECIDED

    ops = [o for o in metamorph.OPERATORS]
    jobs = [(prog.root, run.prop, op) for op in ops]
    with ProcessPoolExecutor(max_workers=min(16, os.cpu_count() or 1, len(jobs))) as ex:
        results = list(ex.map(_meta_eval, jobs))
    base_viol = {f"{o.rule}@{o.construct}: {o.stmt[:60]}" for o in run.new_violations()}
    base_proven = sum(1 for o in run.obligations if o.verdict == PROVEN)
    unstable = []
    for r in results:
        extra = [v for v in r["violations"] if v not in base_viol]
        if (extra and not base_viol) or r["errors"]:
            unstable.append({"operator": r["operator"], "new_violations": extra[:5], "errors": r["errors"]})
    run.stats["metamorphic"] = {
        "what": "rules of this property re-run on behaviour-preserving rewrites of the whole package (geolint/metamorph.py); a stable rule "
                "gives no violation that the tree as written does not give. `proven`/`undecided` show how much of the proof survives the rewrite",
        "proven_on_tree_as_written": base_proven,
        "per_operator": {r["operator"]: {"sites_rewritten": r["sites"], "violations": len(r["violations"]), "proven": r["proven"], "undecided": r["undecided"],
                                               **({"undecided_because": r["undecided_why"]} if r["undecided"] else {})}
                         for r in results},
        "unstable": unstable,
    }
    for u in unstable:
        print(f"NOTE metamorphic instability property={run.prop} operator={u['operator']}: {u['new_violations'] or u['errors']}")
