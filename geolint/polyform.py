"""E12 - closed-form kernels as polynomials and index tables (C20, closed-form branches only).

The fast paths of det / adjugate / inv / hat_matrix are written out entry by entry. What they compute is visible in the source as
algebra over matrix-entry atoms `A[..., i, j]` and as literal index tables, and can be compared with the definition without any
number:

  * an expression built from atoms with + - * (and locals defined by such expressions) is normalised to a polynomial
    (dict: sorted tuple of atoms -> integer coefficient) and compared with the Leibniz expansion of the determinant;
  * literal fancy-index tables (`A[..., [[1,0],[1,0]], [[1,1],[0,0]]]`, `result[..., [0,1],[1,0]] *= -1`, `result[..., i, j] = x`
    with `i, j = [1,2,0], [2,0,1]`) and slice patterns (`[..., 1::2, ::2]`) are evaluated as index sets and compared with the
    cofactor definition / the Levi-Civita definition of the hat matrix.

No path is executed and nothing is handed to a solver; an expression outside this vocabulary makes the obligation UNDECIDED.
"""

from __future__ import annotations

import ast
import itertools

from geolint.model import FunctionInfo, Program, norm_stmt
from geolint.report import PROVEN, UNDECIDED, VIOLATION, Run

Poly = dict  # tuple[tuple[int,int], ...] -> int


class NotPolynomial(Exception):
    pass


def p_add(a: Poly, b: Poly, sign: int = 1) -> Poly:
    out = dict(a)
    for k, v in b.items():
        out[k] = out.get(k, 0) + sign * v
        if out[k] == 0:
            del out[k]
    return out


def p_mul(a: Poly, b: Poly) -> Poly:
    out: Poly = {}
    for k1, v1 in a.items():
        for k2, v2 in b.items():
            k = tuple(sorted(k1 + k2))
            out[k] = out.get(k, 0) + v1 * v2
            if out[k] == 0:
                del out[k]
    return out


def leibniz(n: int) -> Poly:
    out: Poly = {}
    for perm in itertools.permutations(range(n)):
        inv = sum(1 for i in range(n) for j in range(i + 1, n) if perm[i] > perm[j])
        out[tuple(sorted((i, perm[i]) for i in range(n)))] = -1 if inv % 2 else 1
    return out


def _const_int(e: ast.AST) -> int | None:
    if isinstance(e, ast.Constant) and isinstance(e.value, int) and not isinstance(e.value, bool):
        return e.value
    if isinstance(e, ast.UnaryOp) and isinstance(e.op, ast.USub) and isinstance(e.operand, ast.Constant) and isinstance(e.operand.value, int):
        return -e.operand.value
    return None


def atom_of(e: ast.AST, matrix: str, n: int) -> tuple[int, int] | None:
    """A[..., i, j] / A[i, j] with constant i, j"""
    if isinstance(e, ast.Subscript) and isinstance(e.value, ast.Name) and e.value.id == matrix and isinstance(e.slice, ast.Tuple):
        elts = e.slice.elts
        if len(elts) == 3 and isinstance(elts[0], ast.Constant) and elts[0].value is Ellipsis:
            elts = elts[1:]
        if len(elts) == 2:
            i, j = _const_int(elts[0]), _const_int(elts[1])
            if i is not None and j is not None:
                return (i % n, j % n)
    return None


def to_poly(e: ast.AST, matrix: str, n: int, env: dict[str, ast.AST], depth: int = 0) -> Poly:
    if depth > 12:
        raise NotPolynomial("definitions nested too deeply")
    a = atom_of(e, matrix, n)
    if a is not None:
        return {(a,): 1}
    c = _const_int(e)
    if c is not None:
        return {(): c} if c else {}
    if isinstance(e, ast.Name) and e.id in env:
        return to_poly(env[e.id], matrix, n, env, depth + 1)
    if isinstance(e, ast.UnaryOp) and isinstance(e.op, ast.USub):
        return p_add({}, to_poly(e.operand, matrix, n, env, depth + 1), -1)
    if isinstance(e, ast.UnaryOp) and isinstance(e.op, ast.UAdd):
        return to_poly(e.operand, matrix, n, env, depth + 1)
    if isinstance(e, ast.BinOp):
        if isinstance(e.op, ast.Add):
            return p_add(to_poly(e.left, matrix, n, env, depth + 1), to_poly(e.right, matrix, n, env, depth + 1))
        if isinstance(e.op, ast.Sub):
            return p_add(to_poly(e.left, matrix, n, env, depth + 1), to_poly(e.right, matrix, n, env, depth + 1), -1)
        if isinstance(e.op, ast.Mult):
            return p_mul(to_poly(e.left, matrix, n, env, depth + 1), to_poly(e.right, matrix, n, env, depth + 1))
        if isinstance(e.op, ast.Pow):
            k = _const_int(e.right)
            if k is not None and 0 <= k <= 4:
                out: Poly = {(): 1}
                base = to_poly(e.left, matrix, n, env, depth + 1)
                for _ in range(k):
                    out = p_mul(out, base)
                return out
    raise NotPolynomial(f"`{ast.unparse(e)[:50]}` is not built from entries of `{matrix}` with + - *")


# ---- vectorised closed forms: small constant index arrays and vectors of polynomials
def _triu_indices(n: int, k: int = 0):
    rows, cols = [], []
    for i in range(n):
        for j in range(max(i + k, 0), n):
            rows.append(i)
            cols.append(j)
    return rows, cols


def to_polyvec(e: ast.AST, matrix: str, n: int, env: dict, depth: int = 0):
    """value of e as: int | list[int] (constant index array) | Poly | list[Poly] (vector of polynomials in the entries of `matrix`)"""
    if depth > 14:
        raise NotPolynomial("too deep")
    c = _const_int(e)
    if c is not None:
        return c
    if isinstance(e, ast.Name):
        if e.id in env:
            v = env[e.id]
            return v if not isinstance(v, ast.AST) else to_polyvec(v, matrix, n, env, depth + 1)
        raise NotPolynomial(f"name `{e.id}`")
    if isinstance(e, (ast.List, ast.Tuple)):
        vals = [to_polyvec(x, matrix, n, env, depth + 1) for x in e.elts]
        if all(isinstance(v, int) for v in vals):
            return vals
        return tuple(vals)  # a tuple of index arrays / vectors: only unpacking uses it
    if isinstance(e, ast.Subscript) and isinstance(e.value, ast.Name) and e.value.id == matrix and isinstance(e.slice, ast.Tuple):
        elts = list(e.slice.elts)
        if elts and isinstance(elts[0], ast.Constant) and elts[0].value is Ellipsis:
            elts = elts[1:]
        if len(elts) == 2:
            i, j = (to_polyvec(x, matrix, n, env, depth + 1) for x in elts)
            if isinstance(i, int) and isinstance(j, int):
                return {((i % n, j % n),): 1}
            li = i if isinstance(i, list) else None
            lj = j if isinstance(j, list) else None
            if (li is None and not isinstance(i, int)) or (lj is None and not isinstance(j, int)):
                raise NotPolynomial("entry index is not a constant")
            m = len(li if li is not None else lj)
            if li is not None and lj is not None and len(li) != len(lj):
                raise NotPolynomial("index arrays of different length")
            return [{(((li[k] if li is not None else i) % n, (lj[k] if lj is not None else j) % n),): 1} for k in range(m)]
    if isinstance(e, ast.Subscript):
        base = to_polyvec(e.value, matrix, n, env, depth + 1)
        if isinstance(base, list) and isinstance(e.slice, ast.Slice):
            lo = _const_int(e.slice.lower) if e.slice.lower is not None else None
            hi = _const_int(e.slice.upper) if e.slice.upper is not None else None
            st = _const_int(e.slice.step) if e.slice.step is not None else None
            return base[slice(lo, hi, st)]
        if isinstance(base, (list, tuple)) and _const_int(e.slice) is not None:
            return base[_const_int(e.slice)]
        raise NotPolynomial("subscript")
    if isinstance(e, ast.UnaryOp) and isinstance(e.op, ast.USub):
        v = to_polyvec(e.operand, matrix, n, env, depth + 1)
        return _pv_map2(0, v, lambda a, b: _pv_sub(a, b))
    if isinstance(e, ast.BinOp):
        l, r = to_polyvec(e.left, matrix, n, env, depth + 1), to_polyvec(e.right, matrix, n, env, depth + 1)
        if isinstance(e.op, ast.Add):
            return _pv_map2(l, r, lambda a, b: _pv_add(a, b))
        if isinstance(e.op, ast.Sub):
            return _pv_map2(l, r, lambda a, b: _pv_sub(a, b))
        if isinstance(e.op, ast.Mult):
            return _pv_map2(l, r, lambda a, b: _pv_mul(a, b))
        if isinstance(e.op, ast.Pow):
            def pw(a, b):
                if isinstance(a, int) and isinstance(b, int) and b >= 0:
                    return a ** b
                if isinstance(b, int) and 0 <= b <= 4:
                    out = {(): 1}
                    for _ in range(b):
                        out = p_mul(out, _as_poly(a))
                    return out
                raise NotPolynomial("power")
            return _pv_map2(l, r, pw)
    if isinstance(e, ast.Call):
        f = e.func
        name = f.attr if isinstance(f, ast.Attribute) else getattr(f, "id", "")
        if name == "triu_indices" and e.args:
            a0 = to_polyvec(e.args[0], matrix, n, env, depth + 1)
            k0 = to_polyvec(e.args[1], matrix, n, env, depth + 1) if len(e.args) > 1 else next((to_polyvec(k.value, matrix, n, env, depth + 1) for k in e.keywords if k.arg == "k"), 0)
            if isinstance(a0, int) and isinstance(k0, int):
                return tuple(_triu_indices(a0, k0))
        if name == "arange" and len(e.args) == 1 and isinstance(to_polyvec(e.args[0], matrix, n, env, depth + 1), int):
            return list(range(to_polyvec(e.args[0], matrix, n, env, depth + 1)))
        if name == "array" and e.args:
            return to_polyvec(e.args[0], matrix, n, env, depth + 1)
        if name == "sum" and e.args:
            v = to_polyvec(e.args[0], matrix, n, env, depth + 1)
            if isinstance(v, list):
                out: Poly = {}
                for x in v:
                    out = p_add(out, _as_poly(x))
                return out
            return v
    raise NotPolynomial(f"`{ast.unparse(e)[:50]}` is outside the vocabulary of vectorised closed forms")


def _as_poly(x) -> Poly:
    if isinstance(x, dict):
        return x
    if isinstance(x, int):
        return {(): x} if x else {}
    raise NotPolynomial("not a polynomial")


def _pv_add(a, b):
    if isinstance(a, int) and isinstance(b, int):
        return a + b
    return p_add(_as_poly(a), _as_poly(b))


def _pv_sub(a, b):
    if isinstance(a, int) and isinstance(b, int):
        return a - b
    return p_add(_as_poly(a), _as_poly(b), -1)


def _pv_mul(a, b):
    if isinstance(a, int) and isinstance(b, int):
        return a * b
    return p_mul(_as_poly(a), _as_poly(b))


def _pv_map2(l, r, f):
    if isinstance(l, list) and isinstance(r, list):
        if len(l) != len(r):
            raise NotPolynomial("vectors of different length")
        return [f(a, b) for a, b in zip(l, r)]
    if isinstance(l, list):
        return [f(a, r) for a in l]
    if isinstance(r, list):
        return [f(l, b) for b in r]
    return f(l, r)


def _fmt_mono(k, v) -> str:
    return ("+" if v > 0 else "-") + (str(abs(v)) if abs(v) != 1 else "") + "".join(f"A{i}{j}" for i, j in k)


def _size_branches(fn: FunctionInfo, size_name: str):
    """(k, if-statement) for every `if <size> == k [and ...]:` of the function"""
    for st in ast.walk(fn.node):
        if isinstance(st, ast.If):
            tests = st.test.values if isinstance(st.test, ast.BoolOp) and isinstance(st.test.op, ast.And) else [st.test]
            for t in tests:
                if isinstance(t, ast.Compare) and len(t.ops) == 1 and isinstance(t.ops[0], ast.Eq) and isinstance(t.left, ast.Name) and t.left.id == size_name:
                    k = _const_int(t.comparators[0])
                    if k is not None:
                        yield k, st


def _size_name(fn: FunctionInfo, matrix: str) -> str | None:
    for st in ast.walk(fn.node):
        if isinstance(st, ast.Assign) and len(st.targets) == 1 and isinstance(st.targets[0], ast.Name):
            v = st.value
            if isinstance(v, ast.Subscript) and isinstance(v.value, ast.Attribute) and v.value.attr == "shape" and isinstance(v.value.value, ast.Name) \
                    and v.value.value.id == matrix and _const_int(v.slice) in (-1, -2):
                return st.targets[0].id
    return None


def _matrix_param(fn: FunctionInfo) -> str | None:
    ps = fn.params()
    return ps[0].arg if ps else None


def _local_defs(stmts) -> dict[str, ast.AST]:
    env: dict[str, ast.AST] = {}
    count: dict[str, int] = {}
    for st in stmts:
        for x in ast.walk(st):
            if isinstance(x, ast.Assign) and len(x.targets) == 1 and isinstance(x.targets[0], ast.Name):
                count[x.targets[0].id] = count.get(x.targets[0].id, 0) + 1
                env[x.targets[0].id] = x.value
    return {k: v for k, v in env.items() if count[k] == 1}


def _follow(prog: Program, fn: FunctionInfo, body: list, matrix: str, depth: int = 0):
    """(statements, matrix name, function) of the code a branch really runs: a body that is only `return helper(<matrix>)` is replaced by the
    helper's body (private helper of the same module, followed twice at most)"""
    stmts = [st for st in body if not (isinstance(st, ast.Expr) and isinstance(getattr(st, "value", None), ast.Constant))]
    if depth < 2 and len(stmts) == 1 and isinstance(stmts[0], ast.Return) and isinstance(stmts[0].value, ast.Call):
        call = stmts[0].value
        if isinstance(call.func, ast.Name) and len(call.args) == 1 and isinstance(call.args[0], ast.Name) and call.args[0].id == matrix and not call.keywords:
            q = prog.resolve_name(fn.module, call.func.id)
            h = prog.functions.get(q) if q else None
            if h is not None and len(h.params()) == 1:
                return _follow(prog, h, h.node.body, h.params()[0].arg, depth + 1)
    return stmts, matrix, fn


# ---------------------------------------------------------------------------------------------- det
def rule_det(run: Run, prog: Program) -> int:
    run.rule("E12.det", "every closed-form branch `if n == k: return <expression in the entries of A>` of det is, as a polynomial in the "
                        "entries, the Leibniz expansion of the k x k determinant (all k! monomials with the sign of their permutation)")
    fn = prog.find_func("geometer.utils.math.det") or prog.find_func("det")
    if fn is None:
        run.add("E12.det", "det", "closed forms", UNDECIDED, "det not found", "")
        return 0
    fn = prog.body_of(fn)
    A = _matrix_param(fn)
    size = _size_name(fn, A) if A else None
    if not size:
        run.add("E12.det", fn.short, "closed forms", UNDECIDED, "matrix size variable (`n = A.shape[-1]`) not recognised", fn.loc)
        return 0
    n = 0
    for k, st in _size_branches(fn, size):
        body, A_, owner = _follow(prog, fn, st.body, A)
        rets = [r for r in body if isinstance(r, ast.Return) and r.value is not None]
        if not rets:
            continue
        env = _local_defs(body)
        for r in rets:
            n += 1
            loc = f"{owner.module.rel}:{r.lineno}"
            label = f"n == {k}"
            try:
                poly = to_poly(r.value, A_, k, env)
            except NotPolynomial as e:
                # a vectorised closed form: constant index arrays (np.triu_indices ...), vectors of entries, np.sum over them
                try:
                    venv: dict = {}
                    for s2 in body:
                        if isinstance(s2, ast.Assign) and len(s2.targets) == 1:
                            t2 = s2.targets[0]
                            val2 = to_polyvec(s2.value, A_, k, venv)
                            if isinstance(t2, ast.Name):
                                venv[t2.id] = val2
                            elif isinstance(t2, ast.Tuple) and isinstance(val2, (tuple, list)) and len(val2) == len(t2.elts):
                                for tt, vv in zip(t2.elts, val2):
                                    if isinstance(tt, ast.Name):
                                        venv[tt.id] = vv
                    poly = to_polyvec(r.value, A_, k, venv)
                    if not isinstance(poly, dict):
                        raise NotPolynomial("the returned value is not a single polynomial")
                except NotPolynomial as e2:
                    run.add("E12.det", fn.short, label, UNDECIDED, f"closed form not read as a polynomial: {e}; nor as a vectorised form: {e2}", loc)
                    continue
            want = leibniz(k)
            if poly == want:
                run.add("E12.det", fn.short, label, PROVEN, f"the {len(want)} signed monomials of the {k}x{k} determinant", loc)
            else:
                missing = [_fmt_mono(m, v) for m, v in want.items() if poly.get(m) != v]
                extra = [_fmt_mono(m, v) for m, v in poly.items() if want.get(m) != v]
                run.add("E12.det", fn.short, label, VIOLATION,
                        f"the closed form for {k}x{k} matrices is not the determinant: expected monomials {' '.join(missing[:6])} "
                        f"but the expression has {' '.join(extra[:6]) or 'nothing in their place'} - wrong for every matrix this branch is selected for "
                        f"(the batch-size threshold decides which inputs that is)", loc, {"missing": missing, "unexpected": extra})
    return n


# ---------------------------------------------------------------------------------------------- index tables
def _literal(e: ast.AST):
    try:
        return ast.literal_eval(e)
    except Exception:  # noqa: BLE001
        return None


def _sub_parts(sub: ast.Subscript):
    elts = sub.slice.elts if isinstance(sub.slice, ast.Tuple) else [sub.slice]
    if elts and isinstance(elts[0], ast.Constant) and elts[0].value is Ellipsis:
        elts = elts[1:]
    return elts


def _slice_set(e: ast.AST, n: int) -> list[int] | None:
    if isinstance(e, ast.Slice):
        lo = _const_int(e.lower) if e.lower is not None else None
        hi = _const_int(e.upper) if e.upper is not None else None
        st = _const_int(e.step) if e.step is not None else None
        if (e.lower is not None and lo is None) or (e.upper is not None and hi is None) or (e.step is not None and st is None):
            return None
        return list(range(n))[slice(lo, hi, st)]
    return None


def rule_adjugate(run: Run, prog: Program) -> int:
    run.rule("E12.adj", "adjugate: the 2x2 index table with its sign flips is [[A11, -A01], [-A10, A00]]; on the minor path the matrix of minors "
                        "is transposed once and exactly the positions with odd i + j are negated (every n); _minor_indices deletes row i and column j "
                        "for the minor stored at (i, j)")
    fn = prog.find_func("geometer.utils.math.adjugate") or prog.find_func("adjugate")
    if fn is None:
        run.add("E12.adj", "adjugate", "closed forms", UNDECIDED, "adjugate not found", "")
        return 0
    fn = prog.body_of(fn)
    A = _matrix_param(fn)
    size = _size_name(fn, A) if A else None
    n_ob = 0
    # ---- 2x2 table
    for k, st in (_size_branches(fn, size) if size else []):
        if k != 2:
            continue
        n_ob += 1
        loc = f"{fn.module.rel}:{st.lineno}"
        table = None  # table[i][j] = (sign, (r, c))
        ok = True
        why = ""
        body2, A2, _owner2 = _follow(prog, fn, st.body, A)
        for s_ in body2:
            if isinstance(s_, ast.Assign) and len(s_.targets) == 1 and isinstance(s_.targets[0], ast.Name) and isinstance(s_.value, ast.Subscript) \
                    and isinstance(s_.value.value, ast.Name) and s_.value.value.id == A2:
                parts = _sub_parts(s_.value)
                R, C = (_literal(parts[0]), _literal(parts[1])) if len(parts) == 2 else (None, None)
                if isinstance(R, list) and isinstance(C, list) and len(R) == 2 and len(C) == 2:
                    try:
                        table = [[(1, (R[i][j], C[i][j])) for j in range(2)] for i in range(2)]
                    except Exception:  # noqa: BLE001
                        ok, why = False, "index table is not 2x2"
                else:
                    ok, why = False, f"`{norm_stmt(s_)[:50]}` is not a literal 2x2 index table"
            elif isinstance(s_, ast.AugAssign) and isinstance(s_.op, ast.Mult) and isinstance(s_.target, ast.Subscript) and _const_int(s_.value) == -1 and table:
                parts = _sub_parts(s_.target)
                I, J = (_literal(parts[0]), _literal(parts[1])) if len(parts) == 2 else (None, None)
                if isinstance(I, list) and isinstance(J, list) and len(I) == len(J):
                    for i, j in zip(I, J):
                        sg, at = table[i][j]
                        table[i][j] = (-sg, at)
                else:
                    ok, why = False, f"`{norm_stmt(s_)[:50]}` not read as a list of positions"
            elif isinstance(s_, ast.Return):
                pass
            else:
                ok, why = False, f"`{norm_stmt(s_)[:50]}` outside the table vocabulary"
        if not ok or table is None:
            # maybe written as an array of polynomials: np.stack / np.array of rows
            run.add("E12.adj", fn.short, "n == 2", UNDECIDED, why or "2x2 branch not read as an index table", loc)
        else:
            want = [[(1, (1, 1)), (-1, (0, 1))], [(-1, (1, 0)), (1, (0, 0))]]
            if table == want:
                run.add("E12.adj", fn.short, "n == 2", PROVEN, "[[A11, -A01], [-A10, A00]]", loc)
            else:
                def show(t):
                    return "[" + ", ".join("[" + ", ".join(("-" if sg < 0 else "") + f"A{a}{b}" for sg, (a, b) in row) + "]" for row in t) + "]"
                run.add("E12.adj", fn.short, "n == 2", VIOLATION,
                        f"the 2x2 branch builds {show(table)}; the adjugate is {show(want)} (A adj(A) = det(A) I fails for every 2x2 matrix)", loc)
    # ---- minor path: transposition + checkerboard
    region = prog.private_helpers(fn)
    negs, neg_owner = [], fn
    for g in region:
        found = [s_ for s_ in ast.walk(g.node) if isinstance(s_, ast.AugAssign) and isinstance(s_.op, ast.Mult) and _const_int(s_.value) == -1
                 and isinstance(s_.target, ast.Subscript) and any(isinstance(p, ast.Slice) for p in _sub_parts(s_.target))]
        if found:
            negs, neg_owner = found, g
            break
    if negs:
        n_ob += 1
        loc = f"{neg_owner.module.rel}:{negs[0].lineno}"
        bad = None
        for n in range(2, 8):
            flipped: dict[tuple[int, int], int] = {}
            readable = True
            for s_ in negs:
                parts = _sub_parts(s_.target)
                if len(parts) != 2:
                    readable = False
                    break
                I, J = _slice_set(parts[0], n), _slice_set(parts[1], n)
                if I is None or J is None:
                    readable = False
                    break
                for i in I:
                    for j in J:
                        flipped[(i, j)] = flipped.get((i, j), 0) + 1
            if not readable:
                bad = "unreadable"
                break
            neg = {p for p, c in flipped.items() if c % 2}
            want = {(i, j) for i in range(n) for j in range(n) if (i + j) % 2}
            if neg != want:
                bad = f"for n = {n} the negated positions are {sorted(neg)[:6]}..., the cofactor signs (-1)^(i+j) need {sorted(want)[:6]}..."
                break
        if bad == "unreadable":
            run.add("E12.adj", fn.short, "cofactor signs", UNDECIDED, "sign pattern not written with constant slices", loc)
        elif bad:
            run.add("E12.adj", fn.short, "cofactor signs", VIOLATION, f"the sign pattern of the minor path is not the checkerboard: {bad}", loc)
        else:
            run.add("E12.adj", fn.short, "cofactor signs", PROVEN, "exactly the positions with odd i + j are negated (n = 2..7)", loc)
        # transposition
        n_ob += 1
        blk = None
        for st in ast.walk(neg_owner.node):
            if isinstance(st, ast.If) and any(x is negs[0] for x in ast.walk(st)):
                blk = st
        scope = blk.body if blk is not None else neg_owner.node.body
        swaps = [x for s_ in scope for x in ast.walk(s_) if isinstance(x, ast.Call) and getattr(x.func, "attr", "") in ("swapaxes", "transpose", "matrix_transpose")
                 or isinstance(x, ast.Attribute) and x.attr in ("T", "mT")]
        if len(swaps) % 2 == 1:
            run.add("E12.adj", fn.short, "transposition", PROVEN, "the matrix of minors is transposed once (adj(A)_ij = cofactor_ji)", loc)
        else:
            run.add("E12.adj", fn.short, "transposition", VIOLATION,
                    f"the minor path transposes the matrix of minors {len(swaps)} time(s): it returns the cofactor matrix, not its transpose "
                    f"(wrong for every non-symmetric matrix on this path)", loc)
    # ---- _minor_indices
    mi = prog.find_func("geometer.utils.math._minor_indices") or prog.find_func("_minor_indices")
    if mi is not None:
        n_ob += 1
        loc = mi.loc
        comp = next((x for x in ast.walk(mi.node) if isinstance(x, ast.ListComp) and len(x.generators) == 2), None)
        verdict, msg = UNDECIDED, "list of minors not recognised (two nested loops over row and column expected)"
        if comp is not None and all(isinstance(g.target, ast.Name) for g in comp.generators):
            outer, inner = comp.generators[0].target.id, comp.generators[1].target.id
            dels = [x for x in ast.walk(comp.elt) if isinstance(x, ast.Call) and getattr(x.func, "attr", "") == "delete"]
            axes = {}
            for d in dels:
                if len(d.args) >= 2 and isinstance(d.args[1], ast.Name):
                    ax = next((_const_int(k.value) for k in d.keywords if k.arg == "axis"), _const_int(d.args[2]) if len(d.args) > 2 else None)
                    axes[d.args[1].id] = ax
            if set(axes) == {outer, inner} and None not in axes.values():
                # indices has shape (2, n, n): axis 1 = rows, axis 2 = columns. The list is row-major in (outer, inner) and is reshaped to A.shape,
                # so the minor at (i, j) must delete row `outer` and column `inner`.
                axes = {k: v % 3 for k, v in axes.items()}
                if axes[outer] == 1 and axes[inner] == 2:
                    verdict, msg = PROVEN, f"the minor stored at ({outer}, {inner}) deletes row {outer} and column {inner}"
                elif axes[outer] == 2 and axes[inner] == 1:
                    verdict, msg = VIOLATION, (f"the minor stored at ({outer}, {inner}) deletes COLUMN {outer} and ROW {inner}: together with the single "
                                               f"transposition in adjugate the result is the cofactor matrix, not the adjugate")
                else:
                    verdict, msg = VIOLATION, (f"the minor stored at ({outer}, {inner}) deletes along axes {axes[outer]} and {axes[inner]} of the (2, n, n) index grid: "
                                               f"a minor deletes one row (axis 1) and one column (axis 2)")
        run.add("E12.adj", mi.short, "row/column of each minor", verdict, msg, loc)
    return n_ob


def rule_inv(run: Run, prog: Program) -> int:
    run.rule("E12.inv", "the closed-form branch of inv returns adjugate(A) divided by det(A) of the same matrix, the determinant broadcast over "
                        "the two matrix axes, after a singularity test on that determinant")
    fn = prog.find_func("geometer.utils.math.inv") or prog.find_func("inv")
    if fn is None:
        run.add("E12.inv", "inv", "closed form", UNDECIDED, "inv not found", "")
        return 0
    fn = prog.body_of(fn)
    n = 0
    blocks = []
    for g in prog.private_helpers(fn):
        Ag = _matrix_param(g)
        for st in ast.walk(g.node):
            if isinstance(st, ast.If):
                blocks.append((g, Ag, st.body))
        if g is not fn:
            blocks.append((g, Ag, g.node.body))
    for fn, A, body_ in blocks:
        env = _local_defs(body_)
        st = ast.Module(body=body_, type_ignores=[])
        for r in [x for x in body_ if isinstance(x, ast.Return) and x.value is not None]:
            v = r.value
            if not (isinstance(v, ast.BinOp) and any(isinstance(x, ast.Call) and getattr(x.func, "id", getattr(x.func, "attr", "")) == "adjugate" for x in ast.walk(v))):
                continue
            n += 1
            loc = f"{fn.module.rel}:{r.lineno}"

            def resolve(e):
                return env.get(e.id, e) if isinstance(e, ast.Name) else e

            def is_call(e, name):
                e = resolve(e)
                return isinstance(e, ast.Call) and getattr(e.func, "id", getattr(e.func, "attr", "")) == name and e.args and isinstance(e.args[0], ast.Name) \
                    and e.args[0].id == A

            if isinstance(v.op, ast.Mult):
                # adjugate(A) * <reciprocal of the determinant>
                other = v.right if any(isinstance(x, ast.Call) and getattr(x.func, "id", getattr(x.func, "attr", "")) == "adjugate" for x in ast.walk(v.left)) else v.left
                adj_side = v.left if other is v.right else v.right
                rec = other.value if isinstance(other, ast.Subscript) else other
                rec = resolve(rec)
                if isinstance(rec, ast.Call) and getattr(rec.func, "attr", getattr(rec.func, "id", "")) == "reciprocal":
                    run.add("E12.inv", fn.short, ast.unparse(v)[:60], VIOLATION,
                            "np.reciprocal keeps the dtype of its argument: for an integer determinant (integer matrices keep their dtype through the closed-form "
                            "det) it returns 0 unless |det| == 1, so inv of an integer batch is the zero matrix - divide (true division) instead", loc)
                    continue
                if isinstance(rec, ast.BinOp) and isinstance(rec.op, ast.Pow):
                    run.add("E12.inv", fn.short, ast.unparse(v)[:60], VIOLATION,
                            "a negative power of an integer determinant raises ValueError / truncates: inv of an integer batch fails - divide (true division) instead", loc)
                    continue
                if isinstance(rec, ast.BinOp) and isinstance(rec.op, ast.Div) and is_call(adj_side, "adjugate"):
                    # adj * (1 / d)[..., None, None]: rewrite as the quotient and judge that
                    v = ast.BinOp(left=adj_side, op=ast.Div(), right=ast.Subscript(value=rec.right, slice=other.slice, ctx=ast.Load()) if isinstance(other, ast.Subscript) else rec.right)
                else:
                    run.add("E12.inv", fn.short, ast.unparse(v)[:60], UNDECIDED, "product form of the quotient not recognised", loc)
                    continue
            if isinstance(v.op, ast.FloorDiv):
                run.add("E12.inv", fn.short, ast.unparse(v)[:60], VIOLATION, "floor division truncates the entries of the inverse", loc)
                continue
            if not isinstance(v.op, ast.Div):
                run.add("E12.inv", fn.short, ast.unparse(v)[:60], UNDECIDED, "the closed form combines adjugate and determinant with an operator that is not recognised", loc)
                continue
            num, den = v.left, v.right
            den_base = den.value if isinstance(den, ast.Subscript) else den
            if is_call(den, "adjugate") or is_call(den_base, "adjugate"):
                run.add("E12.inv", fn.short, ast.unparse(v)[:60], VIOLATION, "the adjugate is the DIVISOR: inv(A) = adj(A) / det(A)", loc)
                continue
            if not is_call(num, "adjugate") or not is_call(den_base, "det"):
                run.add("E12.inv", fn.short, ast.unparse(v)[:60], UNDECIDED, "numerator/denominator not recognised as adjugate(A) and det(A) of the parameter", loc)
                continue
            # broadcast of the determinant over both matrix axes
            bc_ok = isinstance(den, ast.Subscript) and [type(x).__name__ if not (isinstance(x, ast.Constant)) else repr(x.value) for x in
                                                        (den.slice.elts if isinstance(den.slice, ast.Tuple) else [den.slice])] == ["Ellipsis", "None", "None"]
            if not bc_ok:
                parts_ = (den.slice.elts if isinstance(den.slice, ast.Tuple) else [den.slice]) if isinstance(den, ast.Subscript) else []
                nones = sum(1 for x in parts_ if isinstance(x, ast.Constant) and x.value is None)
                simple = all(isinstance(x, ast.Constant) and (x.value is None or x.value is Ellipsis) for x in parts_)
                run.add("E12.inv", fn.short, ast.unparse(v)[:60], VIOLATION if (not isinstance(den, ast.Subscript) or (simple and nones != 2)) else UNDECIDED,
                        "the determinant of a batch has shape (...,) and must be broadcast as d[..., None, None] against the (..., n, n) adjugate: without it "
                        "numpy aligns the batch axis with the matrix columns (wrong quotient or a shape error for batches)", loc)
                continue
            guard = any(isinstance(x, ast.Raise) for s_ in body_ for x in ast.walk(s_))
            run.add("E12.inv", fn.short, ast.unparse(v)[:60], PROVEN if guard else UNDECIDED,
                    "adjugate(A) / det(A)[..., None, None] after a singularity test" if guard else "no singularity test (raise) found before the division", loc)
    return n


def rule_hat(run: Run, prog: Program) -> int:
    run.rule("E12.hat", "hat_matrix, 3D branch: the literal index table places x so that H[r, s] = sum_t eps(r, s, t) x[t] - the documented matrix "
                        "[[0, c, -b], [-c, 0, a], [b, -a, 0]], i.e. H v = cross(v, x)")
    fn = prog.find_func("geometer.utils.math.hat_matrix") or prog.find_func("hat_matrix")
    if fn is None:
        run.add("E12.hat", "hat_matrix", "3D table", UNDECIDED, "hat_matrix not found", "")
        return 0
    fn = prog.body_of(fn)
    n = 0
    for st in ast.walk(fn.node):
        if not (isinstance(st, ast.If) and isinstance(st.test, ast.Compare) and len(st.test.ops) == 1 and isinstance(st.test.ops[0], ast.Eq)
                and _const_int(st.test.comparators[0]) == 3):
            continue
        n += 1
        loc = f"{fn.module.rel}:{st.lineno}"
        tables: dict[str, list] = {}
        H: dict[tuple[int, int], tuple[int, int]] = {}  # (r, s) -> (sign, t)
        ok = True
        for s_ in st.body:
            if isinstance(s_, ast.Assign) and len(s_.targets) == 1 and isinstance(s_.targets[0], ast.Tuple) and isinstance(s_.value, ast.Tuple):
                for t, v in zip(s_.targets[0].elts, s_.value.elts):
                    lit = _literal(v)
                    if isinstance(t, ast.Name) and isinstance(lit, list):
                        tables[t.id] = lit
            elif isinstance(s_, ast.Assign) and len(s_.targets) == 1 and isinstance(s_.targets[0], ast.Name) and isinstance(_literal(s_.value), list):
                tables[s_.targets[0].id] = _literal(s_.value)
            elif isinstance(s_, ast.Assign) and len(s_.targets) == 1 and isinstance(s_.targets[0], ast.Subscript):
                parts = _sub_parts(s_.targets[0])
                if len(parts) != 2:
                    ok = False
                    continue
                I = tables.get(parts[0].id) if isinstance(parts[0], ast.Name) else _literal(parts[0])
                J = tables.get(parts[1].id) if isinstance(parts[1], ast.Name) else _literal(parts[1])
                sign = -1 if isinstance(s_.value, ast.UnaryOp) and isinstance(s_.value.op, ast.USub) else 1
                if not (isinstance(I, list) and isinstance(J, list) and len(I) == len(J) == 3):
                    ok = False
                    continue
                for t, (r, c) in enumerate(zip(I, J)):
                    H[(r, c)] = (sign, t)
        if not ok or not H:
            run.add("E12.hat", fn.short, "3D table", UNDECIDED, "the 3D branch is not written as two literal index tables with `result[..., i, j] = x; result[..., j, i] = -x`", loc)
            continue

        def eps(r, s, t):
            return {(0, 1, 2): 1, (1, 2, 0): 1, (2, 0, 1): 1, (0, 2, 1): -1, (2, 1, 0): -1, (1, 0, 2): -1}.get((r, s, t), 0)

        want = {(r, s): (eps(r, s, t), t) for r in range(3) for s in range(3) for t in range(3) if eps(r, s, t)}
        if H == want:
            run.add("E12.hat", fn.short, "3D table", PROVEN, "H[r, s] = eps(r, s, t) x[t] for all six off-diagonal positions", loc)
        else:
            diff = [f"H[{r},{s}] = {'-' if H.get((r, s), (0, 0))[0] < 0 else ''}x[{H.get((r, s), (0, '?'))[1]}] (documented: {'-' if w[0] < 0 else ''}x[{w[1]}])"
                    for (r, s), w in sorted(want.items()) if H.get((r, s)) != w]
            run.add("E12.hat", fn.short, "3D table", VIOLATION,
                    "the 3D index table does not build the documented skew matrix: " + "; ".join(diff[:4]) + " - hat_matrix(x) v is no longer cross(v, x)", loc)
    return n


# ---------------------------------------------------------------------------------------------- measure formulas (C13, one clause)
from fractions import Fraction  # noqa: E402


class NotMonomial(Exception):
    pass


class Lin:
    """a*n + b with rational a, b (exponents and gamma arguments)"""

    def __init__(self, a=0, b=0):
        self.a, self.b = Fraction(a), Fraction(b)

    def __add__(self, o):
        return Lin(self.a + o.a, self.b + o.b)

    def __sub__(self, o):
        return Lin(self.a - o.a, self.b - o.b)

    def scale(self, k):
        return Lin(self.a * k, self.b * k)

    def key(self):
        return (self.a, self.b)

    def is_zero(self):
        return self.a == 0 and self.b == 0

    def __repr__(self):
        parts = []
        if self.a:
            parts.append(("" if self.a == 1 else str(self.a) + "*") + "n")
        if self.b or not parts:
            parts.append(str(self.b))
        return "+".join(parts).replace("+-", "-")


def _lin(e: ast.AST, n_names: set[str], env: dict | None = None, depth: int = 0) -> Lin:
    if isinstance(e, ast.Constant) and isinstance(e.value, (int, float)) and not isinstance(e.value, bool):
        return Lin(0, Fraction(e.value).limit_denominator(1000))
    if isinstance(e, ast.Name) and e.id in n_names:
        return Lin(1, 0)
    if isinstance(e, ast.Name) and env and e.id in env and depth < 6:
        return _lin(env[e.id], n_names, env, depth + 1)  # a local such as half = 0.5 * n
    if isinstance(e, ast.Attribute) and e.attr == "dim":
        return Lin(1, 0)
    if isinstance(e, ast.UnaryOp) and isinstance(e.op, ast.USub):
        return _lin(e.operand, n_names, env, depth + 1).scale(-1)
    if isinstance(e, ast.BinOp):
        if isinstance(e.op, ast.Add):
            return _lin(e.left, n_names, env, depth + 1) + _lin(e.right, n_names, env, depth + 1)
        if isinstance(e.op, ast.Sub):
            return _lin(e.left, n_names, env, depth + 1) - _lin(e.right, n_names, env, depth + 1)
        if isinstance(e.op, (ast.Mult, ast.Div)):
            l, r = _lin(e.left, n_names, env, depth + 1), _lin(e.right, n_names, env, depth + 1)
            if isinstance(e.op, ast.Div):
                if r.a != 0 or r.b == 0:
                    raise NotMonomial("division by a non-constant")
                return l.scale(1 / r.b)
            if l.a == 0:
                return r.scale(l.b)
            if r.a == 0:
                return l.scale(r.b)
    raise NotMonomial(f"`{ast.unparse(e)[:30]}` is not linear in the dimension")


class Mono:
    def __init__(self, coef=1, factors=None):
        self.coef = Fraction(coef)
        self.factors: dict[str, Lin] = dict(factors or {})

    def mul(self, o: "Mono", sign: int = 1) -> "Mono":
        out = Mono(self.coef * (o.coef if sign > 0 else 1 / o.coef), self.factors)
        for k, v in o.factors.items():
            nv = out.factors.get(k, Lin()) + v.scale(sign)
            if nv.is_zero():
                out.factors.pop(k, None)
            else:
                out.factors[k] = nv
        return out

    def power(self, ex: Lin) -> "Mono":
        if self.coef != 1:
            if ex.a != 0 or ex.b.denominator != 1:
                raise NotMonomial("numeric factor under a symbolic power")
            coef = self.coef ** int(ex.b)
        else:
            coef = Fraction(1)
        return Mono(coef, {k: Lin(v.b * ex.a + v.a * ex.b, v.b * ex.b) if v.a == 0 or ex.a == 0 else (_ for _ in ()).throw(NotMonomial("n*n in an exponent"))
                           for k, v in self.factors.items()})

    def show(self) -> str:
        return (str(self.coef) if self.coef != 1 or not self.factors else "") + " ".join(
            (" " if i or self.coef != 1 else "") + f"{k}^({v})" for i, (k, v) in enumerate(sorted(self.factors.items()))).replace("  ", " ")


def to_mono(e: ast.AST, prog: Program, fn: FunctionInfo, n_names: set[str], env: dict[str, ast.AST], depth: int = 0) -> Mono:
    if depth > 8:
        raise NotMonomial("too deep")
    if isinstance(e, ast.Constant) and isinstance(e.value, (int, float)) and not isinstance(e.value, bool):
        return Mono(Fraction(e.value).limit_denominator(10 ** 6))
    if isinstance(e, ast.Attribute) and e.attr == "pi":
        return Mono(1, {"pi": Lin(0, 1)})
    if isinstance(e, ast.Attribute) and e.attr == "radius" and isinstance(e.value, ast.Name):
        return Mono(1, {"r": Lin(0, 1)})
    if isinstance(e, ast.Name) and e.id in n_names or isinstance(e, ast.Attribute) and e.attr == "dim":
        return Mono(1, {"n": Lin(0, 1)})
    if isinstance(e, ast.Name) and e.id in env:
        return to_mono(env[e.id], prog, fn, n_names, env, depth + 1)
    if isinstance(e, ast.UnaryOp) and isinstance(e.op, ast.UAdd):
        return to_mono(e.operand, prog, fn, n_names, env, depth + 1)
    if isinstance(e, ast.BinOp):
        if isinstance(e.op, ast.Mult):
            return to_mono(e.left, prog, fn, n_names, env, depth + 1).mul(to_mono(e.right, prog, fn, n_names, env, depth + 1))
        if isinstance(e.op, ast.Div):
            return to_mono(e.left, prog, fn, n_names, env, depth + 1).mul(to_mono(e.right, prog, fn, n_names, env, depth + 1), -1)
        if isinstance(e.op, ast.Pow):
            return to_mono(e.left, prog, fn, n_names, env, depth + 1).power(_lin(e.right, n_names, env))
    if isinstance(e, ast.Call):
        f = e.func
        name = f.attr if isinstance(f, ast.Attribute) else getattr(f, "id", "")
        if name == "gamma" and len(e.args) == 1:
            return Mono(1, {f"gamma({_lin(e.args[0], n_names, env)})": Lin(0, 1)})
        if name in ("power", "pow") and len(e.args) == 2:
            return to_mono(e.args[0], prog, fn, n_names, env, depth + 1).power(_lin(e.args[1], n_names, env))
        if name == "sqrt" and len(e.args) == 1:
            return to_mono(e.args[0], prog, fn, n_names, env, depth + 1).power(Lin(0, Fraction(1, 2)))
        if name == "factorial" and len(e.args) == 1:
            return Mono(1, {f"factorial({_lin(e.args[0], n_names, env)})": Lin(0, 1)})
        # a helper of the same class / module: inline its single return expression, parameters replaced by the arguments
        tgt = None
        if isinstance(f, ast.Attribute) and isinstance(f.value, ast.Name) and fn.cls is not None:
            tgt = prog.lookup(fn.cls, f.attr)
        elif isinstance(f, ast.Name):
            q = prog.resolve_name(fn.module, f.id)
            tgt = prog.functions.get(q) if q else None
        if tgt is not None:
            rets = [r for r in ast.walk(tgt.node) if isinstance(r, ast.Return) and r.value is not None]
            params = [p.arg for p in tgt.params()]
            if tgt.cls is not None and not tgt.is_staticmethod and params:
                params = params[1:]
            if len(rets) == 1 and len(params) == len(e.args) and all(isinstance(a, (ast.Name, ast.Attribute)) for a in e.args):
                # only the dimension may be passed on
                sub_n = {p for p, a in zip(params, e.args) if (isinstance(a, ast.Name) and a.id in n_names) or (isinstance(a, ast.Attribute) and a.attr == "dim")}
                if len(sub_n) == len(params):
                    return to_mono(rets[0].value, prog, tgt, sub_n, {k_: v_ for k_, v_ in _local_defs(tgt.node.body).items() if k_ not in sub_n}, depth + 1)
    raise NotMonomial(f"`{ast.unparse(e)[:40]}` is not a product of powers of pi, the radius and the dimension")


def _ball(n: Lin) -> dict[str, Lin]:
    return {"pi": n.scale(Fraction(1, 2)), f"gamma({n.scale(Fraction(1, 2)) + Lin(0, 1)})": Lin(0, -1)}


MEASURES = {
    # (class, member): (coefficient, factors) - textbook: area of a disc, volume and surface of the n-ball
    ("Circle", "area"): (Fraction(1), {"pi": Lin(0, 1), "r": Lin(0, 2)}, "pi r^2"),
    ("Sphere", "volume"): (Fraction(1), dict(_ball(Lin(1, 0)), r=Lin(1, 0)), "pi^(n/2) / Gamma(n/2 + 1) * r^n"),
    ("Sphere", "area"): (Fraction(1), dict(_ball(Lin(1, 0)), r=Lin(1, -1), n=Lin(0, 1)), "n * pi^(n/2) / Gamma(n/2 + 1) * r^(n-1)"),
}


def rule_measures(run: Run, prog: Program) -> int:
    run.rule("E12.measure", "the measure members of the round quadrics are the textbook monomials in pi, the radius and the dimension: "
                            "Circle.area = pi r^2, Sphere.volume = pi^(n/2)/Gamma(n/2+1) r^n, Sphere.area = n pi^(n/2)/Gamma(n/2+1) r^(n-1)")
    n_ob = 0
    for (cname, member), (coef, factors, text) in MEASURES.items():
        c = prog.find_cls(cname)
        fn = prog.lookup(c, member) if c is not None else None
        if fn is None:
            run.add("E12.measure", f"{cname}.{member}", "formula", UNDECIDED, "member not found", c.loc if c else "")
            continue
        fn = prog.body_of(fn)
        n_ob += 1
        rets = [r for r in ast.walk(fn.node) if isinstance(r, ast.Return) and r.value is not None]
        env = _local_defs(fn.node.body)
        n_names = {k for k, v in env.items() if isinstance(v, ast.Attribute) and v.attr == "dim"}
        env = {k: v for k, v in env.items() if k not in n_names}
        loc = f"{fn.module.rel}:{rets[0].lineno}" if rets else fn.loc
        if len(rets) != 1:
            run.add("E12.measure", fn.short, "formula", UNDECIDED, f"{len(rets)} return statements", loc)
            continue
        try:
            m = to_mono(rets[0].value, prog, fn, n_names, env)
        except NotMonomial as e:
            run.add("E12.measure", fn.short, "formula", UNDECIDED, f"not read as a monomial: {e}", loc)
            continue
        got_keys = {k: v.key() for k, v in m.factors.items()}
        want_keys = {k: v.key() for k, v in factors.items()}
        if got_keys == want_keys and m.coef == coef:
            run.add("E12.measure", fn.short, "formula", PROVEN, f"= {text}", loc)
        elif {k: v for k, v in got_keys.items() if "(" in k} == {k: v for k, v in want_keys.items() if "(" in k}:
            # the transcendental building blocks (gamma / factorial terms) are the same: the rest is a monomial in pi, r and n and must agree exactly
            run.add("E12.measure", fn.short, "formula", VIOLATION,
                    f"{fn.short} returns {m.show()} but the textbook measure is {text}"
                    + (f" (off by the factor {m.coef / coef})" if got_keys == want_keys else " (a factor or an exponent differs)"), loc)
        elif {k: v for k, v in got_keys.items() if "(" not in k} == {k: v for k, v in want_keys.items() if "(" not in k} and m.coef == coef:
            # everything but the gamma / factorial terms agrees: nothing is left that could compensate for a different gamma argument
            run.add("E12.measure", fn.short, "formula", VIOLATION,
                    f"{fn.short} returns {m.show()} but the textbook measure is {text} (the gamma / factorial term differs while all other factors agree)", loc)
        else:
            run.add("E12.measure", fn.short, "formula", UNDECIDED,
                    f"written with other building blocks ({sorted(got_keys)}) than the reference form ({sorted(want_keys)}); equivalence not decided", loc)
    return n_ob


# ---------------------------------------------------------------------------------------------- closed-form roots (C20)
class LP:
    """Laurent polynomial with rational coefficients over named symbols: dict {((sym, exp), ...): coef}"""

    def __init__(self, terms=None):
        self.t = {k: v for k, v in (terms or {}).items() if v}

    @staticmethod
    def const(c):
        return LP({(): Fraction(c)})

    @staticmethod
    def sym(name):
        return LP({((name, Fraction(1)),): Fraction(1)})

    def __add__(self, o):
        out = dict(self.t)
        for k, v in o.t.items():
            out[k] = out.get(k, 0) + v
        return LP(out)

    def __neg__(self):
        return LP({k: -v for k, v in self.t.items()})

    def __sub__(self, o):
        return self + (-o)

    def __mul__(self, o):
        out: dict = {}
        get = out.get
        for k1, v1 in self.t.items():
            for k2, v2 in o.t.items():
                if not k1:
                    k = k2
                elif not k2:
                    k = k1
                else:
                    d = dict(k1)
                    cancel = False
                    for s_, e_ in k2:
                        if s_ in d:
                            e_ = d[s_] + e_
                            cancel = cancel or not e_
                        d[s_] = e_
                    k = tuple(sorted((x_ for x_ in d.items() if x_[1]) if cancel else d.items()))
                out[k] = get(k, 0) + v1 * v2
        return LP(out)

    def inverse(self):
        if len(self.t) != 1:
            raise NotPolynomial("division by a sum")
        (k, v), = self.t.items()
        return LP({tuple(sorted((s_, -e_) for s_, e_ in k)): 1 / v})

    def power(self, n: int):
        out = LP.const(1)
        base = self if n >= 0 else self.inverse()
        for _ in range(abs(n)):
            out = out * base
        return out

    def rewrite(self, rules: dict) -> "LP":
        """rules: symbol -> (power p, LP value): sym**p is replaced by the value (sqrt and cube-root symbols)"""
        cur = self
        for _ in range(12):
            changed = False
            out = LP()
            for k, v in cur.t.items():
                term = LP({(): v})
                for s_, e_ in k:
                    if s_ in rules and e_ >= rules[s_][0]:
                        p_, val = rules[s_]
                        q, r = divmod(int(e_), p_) if e_.denominator == 1 else (0, e_)
                        if q:
                            changed = True
                            term = term * val.power(q) * (LP({((s_, Fraction(r)),): Fraction(1)}) if r else LP.const(1))
                            continue
                    term = term * LP({((s_, e_),): Fraction(1)})
                out = out + term
            cur = out
            if not changed:
                break
        return cur

    def is_zero(self):
        return not self.t

    def show(self):
        def mono(k):
            return "*".join(f"{s_}" + (f"^{e_}" if e_ != 1 else "") for s_, e_ in k) or "1"
        return " + ".join(f"{v}*{mono(k)}" for k, v in sorted(self.t.items())) or "0"


def _lp(e: ast.AST, env: dict, syms: set[str], rules: dict, depth: int = 0) -> LP:
    if depth > 12:
        raise NotPolynomial("too deep")
    c = None
    if isinstance(e, ast.Constant) and isinstance(e.value, (int, float)) and not isinstance(e.value, bool):
        c = Fraction(e.value).limit_denominator(10 ** 6)
        return LP.const(c)
    if isinstance(e, ast.Name):
        if e.id in env:
            return env[e.id] if isinstance(env[e.id], LP) else _lp(env[e.id], env, syms, rules, depth + 1)
        if e.id in syms:
            return LP.sym(e.id)
        raise NotPolynomial(f"name `{e.id}`")
    if isinstance(e, ast.UnaryOp) and isinstance(e.op, ast.USub):
        return -_lp(e.operand, env, syms, rules, depth + 1)
    if isinstance(e, ast.BinOp):
        if isinstance(e.op, ast.Add):
            return _lp(e.left, env, syms, rules, depth + 1) + _lp(e.right, env, syms, rules, depth + 1)
        if isinstance(e.op, ast.Sub):
            return _lp(e.left, env, syms, rules, depth + 1) - _lp(e.right, env, syms, rules, depth + 1)
        if isinstance(e.op, ast.Mult):
            return _lp(e.left, env, syms, rules, depth + 1) * _lp(e.right, env, syms, rules, depth + 1)
        if isinstance(e.op, ast.Div):
            return _lp(e.left, env, syms, rules, depth + 1) * _lp(e.right, env, syms, rules, depth + 1).inverse()
        if isinstance(e.op, ast.Pow):
            k = _const_int(e.right)
            if k is not None:
                return _lp(e.left, env, syms, rules, depth + 1).power(k)
    if isinstance(e, ast.Call):
        name = e.func.attr if isinstance(e.func, ast.Attribute) else getattr(e.func, "id", "")
        if name in ("sqrt", "csqrt", "cbrt") and len(e.args) == 1:
            inner = _lp(e.args[0], env, syms, rules, depth + 1)
            key = f"{'cbrt' if name == 'cbrt' else 'sqrt'}({inner.show()})"
            rules[key] = (3 if name == "cbrt" else 2, inner)
            return LP.sym(key)
    raise NotPolynomial(f"`{ast.unparse(e)[:40]}` is outside + - * / ** sqrt cbrt")


def rule_roots(run: Run, prog: Program) -> int:
    run.rule("E12.roots", "the algebraic branches of roots() return roots: substituting the returned expression into the polynomial of that branch gives 0 as "
                          "an identity (linear and quadratic branch, with sqrt(u)^2 = u), and the single value returned for a triple root x satisfies "
                          "x^3 = -d/a (Vieta; cbrt(u)^3 = u)")
    fn = prog.find_func("geometer.utils.math.roots") or prog.find_func("roots")
    if fn is None:
        run.add("E12.roots", "roots", "closed forms", UNDECIDED, "roots not found", "")
        return 0
    fn = prog.body_of(fn)
    # coefficient names: the 4-tuple unpacking `a, b, c, d = p`
    coef = None
    for st in ast.walk(fn.node):
        if isinstance(st, ast.Assign) and isinstance(st.targets[0], ast.Tuple) and len(st.targets[0].elts) == 4 and all(isinstance(x, ast.Name) for x in st.targets[0].elts):
            coef = [x.id for x in st.targets[0].elts]
            break
    if coef is None:
        run.add("E12.roots", fn.short, "closed forms", UNDECIDED, "the unpacking `a, b, c, d = p` was not found", fn.loc)
        return 0
    a, b, c, d = coef
    syms = set(coef)
    n = 0

    def zero_tests(test: ast.AST) -> set[str]:
        out = set()
        for x in ast.walk(test):
            if isinstance(x, ast.Compare) and len(x.ops) == 1 and isinstance(x.ops[0], ast.Eq) and isinstance(x.left, ast.Name) and _is_zero(x.comparators[0]):
                out.add(x.left.id)
        return out

    def _is_zero(e):
        return isinstance(e, ast.Constant) and e.value == 0

    def returned_roots(body):
        env = _local_defs(body)
        for st in body:
            if isinstance(st, ast.Return) and isinstance(st.value, ast.Call) and st.value.args and isinstance(st.value.args[0], (ast.List, ast.Tuple)):
                return env, st, st.value.args[0].elts
        return env, None, []

    for st in fn.node.body:
        if not isinstance(st, ast.If):
            continue
        zs = zero_tests(st.test)
        env, ret, exprs = returned_roots(st.body)
        if ret is None:
            continue
        loc = f"{fn.module.rel}:{ret.lineno}"
        if zs == {a, b}:
            branch, poly_of = "linear", lambda x: LP.sym(c) * x + LP.sym(d)
        elif zs == {a}:
            branch, poly_of = "quadratic", lambda x: LP.sym(b) * x * x + LP.sym(c) * x + LP.sym(d)
        elif len(zs) >= 3 and not (zs & syms):
            branch, poly_of = "triple root", None
        else:
            continue
        for i, ex in enumerate(exprs):
            n += 1
            label = f"{branch} branch, root {i + 1}"
            rules: dict = {}
            try:
                # the locals of the branch, evaluated in order (a name may be rebound: D = c**2 - 4*b*d; D = csqrt(D))
                env = {}
                for s2 in st.body:
                    if isinstance(s2, ast.Assign) and len(s2.targets) == 1 and isinstance(s2.targets[0], ast.Name):
                        try:
                            env[s2.targets[0].id] = _lp(s2.value, env, syms, rules)
                        except NotPolynomial:
                            env.pop(s2.targets[0].id, None)
                x = _lp(ex, env, syms, rules)
                if poly_of is not None:
                    resid = poly_of(x).rewrite(rules)
                    what = "the polynomial of this branch at the returned value"
                else:
                    resid = (x.power(3) + LP.sym(d) * LP.sym(a).inverse()).rewrite(rules)
                    what = "x^3 + d/a (product of the three equal roots is -d/a)"
                    # the conditions of the branch (f == 0, g == 0 ...) are relations between the coefficients: each one that is linear in a
                    # coefficient with a monomial factor is solved for it and used as a rewrite rule before the residual is judged
                    outer_env: dict = {}
                    for s2 in fn.node.body:
                        if isinstance(s2, ast.Assign) and len(s2.targets) == 1 and isinstance(s2.targets[0], ast.Name):
                            try:
                                outer_env[s2.targets[0].id] = _lp(s2.value, outer_env, syms, {})
                            except NotPolynomial:
                                pass
                    subst: list[tuple[str, LP]] = []

                    def apply_subst(p_: LP) -> LP:
                        for sym_, val_ in subst:
                            out_ = LP()
                            for k_, v_ in p_.t.items():
                                term = LP({tuple((s3, e3) for s3, e3 in k_ if s3 != sym_): v_})
                                e_ = dict(k_).get(sym_)
                                if e_ is not None:
                                    if e_.denominator != 1 or e_ < 0:
                                        raise NotPolynomial("coefficient under a root or in a denominator")
                                    term = term * val_.power(int(e_))
                                out_ = out_ + term
                            p_ = out_
                        return p_

                    for cond in sorted(zs):
                        rel = outer_env.get(cond)
                        if rel is None:
                            continue
                        rel = apply_subst(rel)
                        for target in (c, d, b):
                            lin = LP({k_: v_ for k_, v_ in rel.t.items() if dict(k_).get(target) == 1})
                            rest = LP({k_: v_ for k_, v_ in rel.t.items() if target not in dict(k_)})
                            if len(lin.t) == 1 and len(lin.t) + len(rest.t) == len(rel.t):
                                coef_ = LP({tuple((s3, e3) for s3, e3 in k_ if s3 != target): v_ for k_, v_ in lin.t.items()})
                                subst.append((target, (-rest) * coef_.inverse()))
                                break
                    resid = apply_subst(resid).rewrite(rules)
                    resid = apply_subst(resid)
            except NotPolynomial as e:
                run.add("E12.roots", fn.short, label, UNDECIDED, f"not read as an algebraic expression: {e}", loc)
                continue
            if resid.is_zero():
                run.add("E12.roots", fn.short, label, PROVEN, f"{what} vanishes identically", loc)
            else:
                run.add("E12.roots", fn.short, label, VIOLATION,
                        f"`{ast.unparse(ex)[:50]}` is not a root in the {branch} branch: {what} is {resid.show()[:120]}, not 0"
                        + (" - the sign is wrong: for x^3 - 3x^2 + 3x - 1 = (x - 1)^3 the value is -1" if branch == "triple root" else ""), loc)
    return n


# ---------------------------------------------------------------------------------------------- roots(): divisors over the zero domain
Z, NZ, UK = "zero", "nonzero", "unknown"
_ZERO_PRESERVING = {"sqrt", "csqrt", "cbrt", "conj", "conjugate", "abs", "absolute", "negative", "real_if_close", "float", "complex", "asarray", "array", "square"}


class _DivisionByZero(Exception):
    def __init__(self, node):
        self.node = node


class _GuardedDivision(Exception):
    def __init__(self, node):
        self.node = node


def _deps(e: ast.AST, env: dict) -> frozenset:
    """the coefficients an expression is computed from (through the locals of the path)"""
    d = env.get("__deps__", {})
    out: set = set()
    for x in ast.walk(e):
        if isinstance(x, ast.Name):
            out |= d.get(x.id, frozenset({x.id}))
    return frozenset(out)


class _ZeroInterp:
    """roots() over the abstract domain {zero, nonzero, unknown}: every coefficient is fixed to `zero` or `nonzero`, the body is interpreted
    path by path (an undecided test forks), and a division whose divisor is definitely zero is reported."""

    def __init__(self):
        self.findings: list[tuple[ast.AST, dict]] = []
        self.paths = 0
        self.divisions = 0

    def zero_divisor(self, node: ast.AST, divisor: ast.AST, env: dict):
        # a test that could not be decided and reads what the divisor is computed from may be the guard of this division
        if _deps(divisor, env) & env.get("__guards__", frozenset()):
            raise _GuardedDivision(node)
        raise _DivisionByZero(node)

    def ev(self, e: ast.AST, env: dict) -> str:
        if isinstance(e, ast.Constant):
            if isinstance(e.value, (int, float, complex)) and not isinstance(e.value, bool):
                return Z if e.value == 0 else NZ
            return UK
        if isinstance(e, ast.Name):
            return env.get(e.id, UK)
        if isinstance(e, ast.UnaryOp) and isinstance(e.op, (ast.USub, ast.UAdd)):
            return self.ev(e.operand, env)
        if isinstance(e, ast.BinOp):
            l, r = self.ev(e.left, env), self.ev(e.right, env)
            if isinstance(e.op, (ast.Add, ast.Sub)):
                if l == Z:
                    return r
                if r == Z:
                    return l
                return UK
            if isinstance(e.op, ast.Mult):
                if Z in (l, r):
                    return Z
                return NZ if l == r == NZ else UK
            if isinstance(e.op, (ast.Div, ast.FloorDiv)):
                self.divisions += 1
                if r == Z:
                    self.zero_divisor(e, e.right, env)
                if r == NZ:
                    return l if l in (Z, NZ) and not isinstance(e.op, ast.FloorDiv) else (Z if l == Z else UK)
                return UK
            if isinstance(e.op, ast.Pow):
                if isinstance(e.right, ast.Constant) and isinstance(e.right.value, (int, float)) and e.right.value > 0:
                    return l
                if isinstance(e.right, ast.Constant) and isinstance(e.right.value, (int, float)) and e.right.value < 0:
                    self.divisions += 1
                    if l == Z:
                        self.zero_divisor(e, e.left, env)
                    return l
                return UK
            return UK
        if isinstance(e, ast.Call):
            name = e.func.attr if isinstance(e.func, ast.Attribute) else e.func.id if isinstance(e.func, ast.Name) else ""
            args = [self.ev(x, env) for x in e.args]  # divisions inside arguments are visited
            if name in _ZERO_PRESERVING and len(args) == 1 and not isinstance(e.args[0], (ast.List, ast.Tuple)):
                return args[0]
            if name in ("divide", "true_divide") and len(args) == 2:
                self.divisions += 1
                if args[1] == Z:
                    self.zero_divisor(e, e.args[1], env)
                return args[0] if args[1] == NZ and args[0] in (Z, NZ) else UK
            if name == "reciprocal" and len(args) == 1:
                self.divisions += 1
                if args[0] == Z:
                    self.zero_divisor(e, e.args[0], env)
                return args[0]
            return UK
        if isinstance(e, (ast.List, ast.Tuple)):
            for x in e.elts:
                self.ev(x, env)
            return UK
        if isinstance(e, ast.IfExp):
            t = self.test(e.test, env)
            if t is True:
                return self.ev(e.body, env)
            if t is False:
                return self.ev(e.orelse, env)
            env = dict(env)
            env["__guards__"] = env.get("__guards__", frozenset()) | _deps(e.test, env)
            x, y = self.ev(e.body, self.refine(e.test, env, True)), self.ev(e.orelse, self.refine(e.test, env, False))
            return x if x == y else UK
        for x in ast.iter_child_nodes(e):
            if isinstance(x, ast.expr):
                self.ev(x, env)
        return UK

    def test(self, t: ast.AST, env: dict):
        """True / False / None (undecided)"""
        if isinstance(t, ast.BoolOp):
            vals = [self.test(v, env) for v in t.values]
            if isinstance(t.op, ast.And):
                return False if False in vals else (True if all(v is True for v in vals) else None)
            return True if True in vals else (False if all(v is False for v in vals) else None)
        if isinstance(t, ast.UnaryOp) and isinstance(t.op, ast.Not):
            v = self.test(t.operand, env)
            return None if v is None else not v
        if isinstance(t, ast.Compare) and len(t.ops) == 1:
            l, r = self.ev(t.left, env), self.ev(t.comparators[0], env)
            op = t.ops[0]
            for side, other_node, flip in ((l, t.comparators[0], False), (r, t.left, True)):
                if side == Z and isinstance(other_node, ast.Constant) and isinstance(other_node.value, (int, float)) and not isinstance(other_node.value, bool):
                    x, y = (other_node.value, 0) if flip else (0, other_node.value)
                    table = {ast.Eq: x == y, ast.NotEq: x != y, ast.Lt: x < y, ast.LtE: x <= y, ast.Gt: x > y, ast.GtE: x >= y}
                    if type(op) in table:
                        return table[type(op)]
            if Z in (l, r):
                other = r if l == Z else l
                if isinstance(op, ast.Eq):
                    return True if other == Z else False if other == NZ else None
                if isinstance(op, ast.NotEq):
                    return False if other == Z else True if other == NZ else None
                if isinstance(op, (ast.LtE, ast.GtE)):
                    return True if other == Z else None
                if isinstance(op, (ast.Lt, ast.Gt)):
                    return False if other == Z else None
            return None
        return None

    def refine(self, t: ast.AST, env: dict, outcome: bool) -> dict:
        """the environment on one side of an undecided test: `x == 0` / `x != 0` on a name fixes that name"""
        env = dict(env)
        if isinstance(t, ast.BoolOp):
            if (isinstance(t.op, ast.And) and outcome) or (isinstance(t.op, ast.Or) and not outcome):
                for v in t.values:
                    env = self.refine(v, env, outcome)
            return env
        if isinstance(t, ast.UnaryOp) and isinstance(t.op, ast.Not):
            return self.refine(t.operand, env, not outcome)
        if isinstance(t, ast.Compare) and len(t.ops) == 1 and isinstance(t.ops[0], (ast.Eq, ast.NotEq)):
            l, r = t.left, t.comparators[0]
            name = l if isinstance(l, ast.Name) else r if isinstance(r, ast.Name) else None
            const = r if name is l else l
            if name is not None and isinstance(const, ast.Constant) and const.value == 0 and env.get(name.id, UK) == UK:
                is_zero = outcome == isinstance(t.ops[0], ast.Eq)
                env[name.id] = Z if is_zero else NZ
        return env

    def block(self, stmts: list, env: dict, rest: list) -> None:
        """interprets stmts then rest (continuation); every completed path counts"""
        for i, st in enumerate(stmts):
            if isinstance(st, ast.Return):
                if st.value is not None:
                    self.ev(st.value, env)
                self.paths += 1
                return
            if isinstance(st, ast.Raise):
                self.paths += 1
                return
            if isinstance(st, ast.If):
                after = stmts[i + 1:]
                v = self.test(st.test, env)
                if v is None:
                    env = dict(env)
                    env["__guards__"] = env.get("__guards__", frozenset()) | _deps(st.test, env)
                if v is not False:
                    self.block(st.body + after, self.refine(st.test, env, True) if v is None else dict(env), rest)
                if v is not True:
                    self.block(st.orelse + after, self.refine(st.test, env, False) if v is None else dict(env), rest)
                return
            if isinstance(st, ast.With):
                self.block(st.body + stmts[i + 1:], env, rest)
                return
            if isinstance(st, (ast.Assign, ast.AnnAssign, ast.AugAssign)):
                value = st.value
                if value is None:
                    continue
                v = self.ev(value, env)
                targets = st.targets if isinstance(st, ast.Assign) else [st.target]
                for t in targets:
                    if isinstance(t, ast.Name):
                        dep = _deps(value, env) | (_deps(t, env) if isinstance(st, ast.AugAssign) else frozenset())
                        if isinstance(st, ast.AugAssign):
                            v = self.ev(ast.BinOp(left=ast.Name(id=t.id, ctx=ast.Load()), op=st.op, right=value), env)
                        env[t.id] = v
                        env["__deps__"] = {**env.get("__deps__", {}), t.id: dep}
                    else:
                        for x in ast.walk(t):
                            if isinstance(x, ast.Name):
                                env[x.id] = UK
                continue
            if isinstance(st, ast.Expr):
                self.ev(st.value, env)
                continue
            # loops, try ... : every name they bind becomes unknown
            for x in ast.walk(st):
                if isinstance(x, ast.Name) and isinstance(x.ctx, ast.Store):
                    env[x.id] = UK
        if rest:
            self.block(rest, env, [])
        else:
            self.paths += 1


def rule_roots_domain(run: Run, prog: Program) -> int:
    run.rule("E12.roots.div", "roots() divides by nothing that is zero on its domain: with every coefficient fixed to zero / non-zero (the leading one of the "
                              "degree non-zero) the body is interpreted over {zero, nonzero, unknown} path by path, and no division has a divisor that is "
                              "definitely zero")
    fn = prog.find_func("geometer.utils.math.roots") or prog.find_func("roots")
    if fn is None:
        run.add("E12.roots.div", "roots", "divisors", UNDECIDED, "roots not found", "")
        return 0
    fn = prog.body_of(fn)
    body = fn.node.body
    start = None
    coef = None
    for i, st in enumerate(body):
        for x in ast.walk(st):
            if isinstance(x, ast.Assign) and isinstance(x.targets[0], ast.Tuple) and len(x.targets[0].elts) == 4 and all(isinstance(y, ast.Name) for y in x.targets[0].elts):
                coef = [y.id for y in x.targets[0].elts]
                start = i + 1
                break
        if coef:
            break
    if coef is None:
        run.add("E12.roots.div", fn.short, "divisors", UNDECIDED, "the unpacking `a, b, c, d = p` was not found", fn.loc)
        return 0
    it = _ZeroInterp()
    n = 0
    bad: dict[str, list[str]] = {}
    guarded: list[str] = []
    first_loc: dict[str, str] = {}
    for pattern in itertools.product((Z, NZ), repeat=4):
        if all(v == Z for v in pattern[:3]):
            continue  # a constant is not a polynomial with roots
        n += 1
        env = dict(zip(coef, pattern))
        try:
            it.block(body[start:], env, [])
        except _GuardedDivision as e:
            guarded.append(f"`{ast.unparse(e.node)[:60]}` ({fn.module.rel}:{e.node.lineno})")
        except _DivisionByZero as e:
            degree = 3 - next(i for i, v in enumerate(pattern) if v == NZ)
            key = f"division by zero in the degree-{degree} case"
            desc = ", ".join(f"{nm} {'= 0' if v == Z else '!= 0'}" for nm, v in zip(coef, pattern))
            bad.setdefault(key, []).append(f"`{ast.unparse(e.node)[:60]}` with {desc}")
            first_loc.setdefault(key, f"{fn.module.rel}:{e.node.lineno}")
    if not hasattr(run, "enumerated"):
        run.enumerated, run.case_samples = {}, {}
    run.enumerated["E12.roots.div"] = n
    run.case_samples["E12.roots.div"] = [f"{n} zero patterns of (a, b, c, d), {it.paths} paths, {it.divisions} divisions judged"]
    for key, lst in sorted(bad.items()):
        run.add("E12.roots.div", fn.short, key, VIOLATION,
                f"the divisor is zero for coefficients inside the domain of roots(): {'; '.join(lst[:3])} - the result is nan/inf instead of a root", first_loc[key])
    if guarded:
        run.add("E12.roots.div", fn.short, "divisions behind a test that was not decided", UNDECIDED,
                f"a divisor is zero on a path whose conditions read the same coefficients and could not be decided over the zero domain: {'; '.join(sorted(set(guarded))[:3])}", fn.loc)
    if not bad and not guarded:
        run.add("E12.roots.div", fn.short, "divisors", PROVEN if it.divisions else UNDECIDED,
                f"{n} zero patterns of the coefficients, {it.paths} paths, {it.divisions} divisions: no divisor is definitely zero", fn.loc)
    return n
