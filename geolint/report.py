"""Obligations, verdicts, known findings, evidence files and exit codes shared by every check."""

from __future__ import annotations

import hashlib
import json
import os
import time
from dataclasses import dataclass, field
from typing import Any

from geolint.model import AnalysisError

VERIF_DIR = os.path.dirname(os.path.dirname(os.path.abspath(__file__)))
EVIDENCE_DIR = os.path.join(VERIF_DIR, "evidence")
KNOWN_FILE = os.path.join(VERIF_DIR, "known_findings.json")

PROVEN = "PROVEN"
VIOLATION = "VIOLATION"
UNDECIDED = "UNDECIDED"
INFO = "INFO"


@dataclass
class Obligation:
    rule: str
    construct: str  # qualified construct name (Class.method, function, table name)
    stmt: str  # normalised statement text or instance label
    verdict: str
    message: str
    loc: str = ""  # file:line, for the reader only
    detail: Any = None

    def key(self, prop: str) -> tuple[str, str, str, str]:
        return (prop, self.rule, self.construct, self.stmt)

    def as_sample(self) -> dict[str, Any]:
        d = {
            "rule": self.rule,
            "construct": self.construct,
            "instance": self.stmt,
            "verdict": self.verdict,
            "at": self.loc,
            "why": self.message,
        }
        if self.detail is not None:
            d["derivation"] = self.detail
        return d


def load_known() -> list[dict[str, Any]]:
    if not os.path.exists(KNOWN_FILE):
        return []
    with open(KNOWN_FILE, encoding="utf-8") as fh:
        data = json.load(fh)
    return list(data.get("findings", []))


@dataclass
class Run:
    prop: str
    tier: str = "quick"
    seed: int = 0
    title: str = ""
    clause: str = ""  # which clause of the property is decided (and what is not)
    rules: dict[str, str] = field(default_factory=dict)  # rule id -> rule text
    obligations: list[Obligation] = field(default_factory=list)
    floors: list[tuple[str, int, int]] = field(default_factory=list)
    stats: dict[str, Any] = field(default_factory=dict)
    trusted: list[str] = field(default_factory=list)
    assumptions: list[str] = field(default_factory=list)
    controls: list[dict[str, Any]] = field(default_factory=list)
    selftest: list[dict[str, Any]] = field(default_factory=list)
    errors: list[str] = field(default_factory=list)
    quiet: bool = False
    write_evidence: bool = True
    t0: float = field(default_factory=time.time)

    # ------------------------------------------------------------------ recording
    def rule(self, rid: str, text: str) -> None:
        self.rules[rid] = text

    def add(self, rule: str, construct: str, stmt: str, verdict: str, message: str, loc: str = "", detail: Any = None) -> Obligation:
        ob = Obligation(rule, construct, stmt, verdict, message, loc, detail)
        # de-duplicate identical keys (a construct reached along two paths of the engine)
        for o in self.obligations:
            if o.rule == rule and o.construct == construct and o.stmt == stmt:
                order = {VIOLATION: 3, UNDECIDED: 2, PROVEN: 1, INFO: 0}
                if order[verdict] > order[o.verdict]:
                    o.verdict, o.message, o.loc, o.detail = verdict, message, loc, detail
                return o
        self.obligations.append(ob)
        return ob

    def floor(self, role: str, count: int, minimum: int) -> None:
        """A role must be matched at least ``minimum`` times or the run is analysis-broken."""
        self.floors.append((role, count, minimum))
        if count < minimum:
            self.errors.append(f"role '{role}': {count} instance(s) analysed, expected at least {minimum}")

    def error(self, msg: str) -> None:
        self.errors.append(msg)

    def control(self, name: str, expected: str, got: str) -> None:
        ok = expected == got
        self.controls.append({"control": name, "expected": expected, "got": got, "ok": ok})
        if not ok:
            self.errors.append(f"positive/negative control '{name}': expected {expected}, got {got}")

    # ------------------------------------------------------------------ queries
    def violations(self) -> list[Obligation]:
        return [o for o in self.obligations if o.verdict == VIOLATION]

    def new_violations(self) -> list[Obligation]:
        """violations that are not listed as open findings in known_findings.json"""
        open_keys = {(k["property"], k["rule"], k["construct"], k["stmt_key"]) for k in load_known() if k.get("status") == "open"}
        return [o for o in self.violations() if o.key(self.prop) not in open_keys]

    def count(self, verdict: str) -> int:
        return sum(1 for o in self.obligations if o.verdict == verdict)

    # ------------------------------------------------------------------ finishing
    def finish(self) -> int:
        known = load_known()
        open_keys = {
            (k["property"], k["rule"], k["construct"], k["stmt_key"]): k
            for k in known
            if k.get("status") == "open"
        }
        new: list[Obligation] = []
        known_hits: list[tuple[Obligation, dict[str, Any]]] = []
        for o in self.violations():
            k = o.key(self.prop)
            if k in open_keys:
                known_hits.append((o, open_keys[k]))
            else:
                new.append(o)

        out = []
        out.append(f"== {self.prop} [{self.tier}] {self.title}")
        out.append(f"   clause decided: {self.clause}")
        for rid, text in self.rules.items():
            n = sum(1 for o in self.obligations if o.rule == rid)
            out.append(f"   rule {rid}: {n} obligation(s) - {text}")
        for role, cnt, mn in self.floors:
            out.append(f"   role floor: {role}: {cnt} (min {mn})")
        for c in self.controls:
            out.append(f"   control {c['control']}: expected {c['expected']} got {c['got']} {'ok' if c['ok'] else 'MISSED'}")
        for k, v in self.stats.items():
            out.append(f"   stat {k}: {v}")
        for o in self.obligations:
            if o.verdict in (UNDECIDED, INFO):
                out.append(f"   {o.verdict}: [{o.rule}] {o.construct}: {o.stmt} -- {o.message} ({o.loc})")
        out.append(
            f"   obligations={len(self.obligations)} proven={self.count(PROVEN)} undecided={self.count(UNDECIDED)} "
            f"violations={self.count(VIOLATION)} info={self.count(INFO)}"
        )
        for s in self.selftest:
            out.append(f"   selftest {s.get('variant')}: expected {s.get('expected')} got {s.get('got')} {'ok' if s.get('ok') else 'FAILED'}")
        if not self.quiet:
            print("\n".join(out))

        code = 0
        if self.errors:
            for e in self.errors:
                print(f"ANALYSIS-ERROR property={self.prop} {e}")
            code = 2
        for o, k in known_hits:
            print(f"KNOWN-FINDING: property={self.prop} [{o.rule}] {o.construct}: {k.get('what_fails', o.message)}")
        replay_dir = os.path.join(EVIDENCE_DIR, "replay")
        for o in new:
            print(f"{o.loc}: [{o.rule}] {o.construct}: {o.stmt}")
            print(f"    {o.message}")
            if o.detail is not None:
                print(f"    derivation: {json.dumps(o.detail, default=str)[:1500]}")
            path = ""
            if self.write_evidence:
                os.makedirs(replay_dir, exist_ok=True)
                h = hashlib.sha1("|".join(o.key(self.prop)).encode()).hexdigest()[:12]
                path = os.path.join(replay_dir, f"{self.prop}-{h}.json")
                with open(path, "w", encoding="utf-8") as fh:
                    json.dump(
                        {
                            "property": self.prop,
                            "rule": o.rule,
                            "construct": o.construct,
                            "stmt_key": o.stmt,
                            "at": o.loc,
                            "message": o.message,
                            "derivation": o.detail,
                            "rerun": f"./check {self.prop} --replay {path}",
                        },
                        fh,
                        indent=1,
                        default=str,
                    )
            print(f"VIOLATION property={self.prop} replay={path}")
            if code == 0:
                code = 1
        if new and code == 2:
            pass  # analysis errors dominate the exit code but violations were still printed
        if self.write_evidence:
            self._write_evidence(new, known_hits)
        return code

    def _write_evidence(self, new: list[Obligation], known_hits) -> None:
        os.makedirs(EVIDENCE_DIR, exist_ok=True)
        decided = [o for o in self.obligations if o.verdict in (PROVEN, VIOLATION)]
        distinct = {(o.rule, o.construct, o.stmt) for o in decided}
        samples = [o.as_sample() for o in self.obligations if o.verdict != PROVEN][:25]
        samples += [o.as_sample() for o in self.obligations if o.verdict == PROVEN][: max(5, 40 - len(samples))]
        enumerated = dict(getattr(self, "enumerated", {}))  # rule -> number of abstract cases interpreted to a definite result on this run
        n_enum = sum(enumerated.values())
        ev = {
            "property_id": self.prop,
            "tier": self.tier,
            "seed": int(self.seed),
            "level": "other",
            "coverage": {
                "evaluations": len(self.obligations) + n_enum,
                "distinct_nontrivial": len(distinct) + n_enum,
                "rule": "one obligation per (rule, construct, statement) found by role in /repo/geometer on this run; "
                "non-trivial = the engine reached a definite verdict (PROVEN or VIOLATION) on a construct of the real tree; "
                "UNDECIDED and INFO obligations are not counted. For the enumerating rules (E11, E13-E16) every abstract case of the finite domain "
                "(index tuple, diagram shape, sign vector, typed tensor) that the interpreter carried to a definite result is counted once in addition "
                "(`enumerated_cases`; cases are distinct by construction; cases outside the interpreter's vocabulary are not counted)",
                "enumerated_cases": enumerated,
                "enumerated_samples": getattr(self, "case_samples", {}),
                "obligations": len(self.obligations),
                "discharged": self.count(PROVEN),
                "undecided": self.count(UNDECIDED),
                "info": self.count(INFO),
                "known_findings_matched": len(known_hits),
                "samples": samples,
                "rules": self.rules,
                "role_floors": [{"role": r, "analysed": c, "minimum": m} for r, c, m in self.floors],
                "controls": self.controls,
                "selftest": self.selftest,
                "stats": self.stats,
                "trusted_base": self.trusted,
                "checker_cmd": f"./check {self.prop} --tier {self.tier}",
                "explanation": self.clause,
                "exhaustive": True,
            },
            "assumptions": self.assumptions,
            "wall_s": round(time.time() - self.t0, 3),
            "violations": len(new),
        }
        with open(os.path.join(EVIDENCE_DIR, f"{self.prop}.json"), "w", encoding="utf-8") as fh:
            json.dump(ev, fh, indent=1, default=str)


def require(cond: bool, msg: str) -> None:
    if not cond:
        raise AnalysisError(msg)
