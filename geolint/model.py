"""M0 - shared static program model of the ``geometer`` package.

Nothing from the analysed package is imported or executed: every fact is read from the AST of
the files found under ``<repo>/geometer`` when the check starts.
"""

from __future__ import annotations

import ast
import os
from dataclasses import dataclass, field
from typing import Iterable, Iterator

PKG = "geometer"


class AnalysisError(Exception):
    """A public anchor is gone or the model cannot be built: exit code 2."""


def repo_root() -> str:
    return os.environ.get("GEOLINT_REPO", "/repo")


def norm_stmt(node: ast.AST | None) -> str:
    """Normalised statement text used in finding keys (never line numbers)."""
    if node is None:
        return ""
    try:
        if isinstance(node, (ast.If, ast.While)):
            return ("if " if isinstance(node, ast.If) else "while ") + ast.unparse(node.test)
        if isinstance(node, ast.For):
            return "for " + ast.unparse(node.target) + " in " + ast.unparse(node.iter)
        if isinstance(node, (ast.FunctionDef, ast.AsyncFunctionDef, ast.ClassDef)):
            return "def " + node.name
        if isinstance(node, ast.ExceptHandler):
            return "except " + (ast.unparse(node.type) if node.type else "")
        text = ast.unparse(node)
    except Exception:  # pragma: no cover - unparse is total on parsed trees
        text = type(node).__name__
    return " ".join(text.split())[:200]


@dataclass
class Module:
    name: str  # dotted, e.g. geometer.utils.math
    path: str  # absolute
    rel: str  # relative to repo root, e.g. geometer/utils/math.py
    tree: ast.Module
    source: str
    imports: dict[str, str] = field(default_factory=dict)  # local name -> dotted target
    globals: dict[str, ast.AST] = field(default_factory=dict)  # module-level simple assignments (value AST)
    global_stmts: dict[str, ast.stmt] = field(default_factory=dict)


@dataclass
class FunctionInfo:
    qualname: str
    name: str
    node: ast.FunctionDef
    module: Module
    cls: "ClassInfo | None" = None
    parent: "FunctionInfo | None" = None  # enclosing function for nested defs
    decorators: tuple[str, ...] = ()
    local_imports: dict[str, str] = field(default_factory=dict)

    @property
    def is_property(self) -> bool:
        return "property" in self.decorators

    @property
    def is_classmethod(self) -> bool:
        return "classmethod" in self.decorators

    @property
    def is_staticmethod(self) -> bool:
        return "staticmethod" in self.decorators

    @property
    def is_overload(self) -> bool:
        return "overload" in self.decorators

    @property
    def is_abstract(self) -> bool:
        return "abstractmethod" in self.decorators

    @property
    def is_public(self) -> bool:
        n = self.name
        if self.parent is not None:
            return False
        if n.startswith("__") and n.endswith("__"):
            return True
        return not n.startswith("_")

    @property
    def short(self) -> str:
        """Class.method or function name (used in finding keys)."""
        q = self.qualname
        if q.startswith(self.module.name + "."):
            q = q[len(self.module.name) + 1 :]
        return q

    @property
    def loc(self) -> str:
        return f"{self.module.rel}:{self.node.lineno}"

    def params(self) -> list[ast.arg]:
        a = self.node.args
        return list(a.posonlyargs) + list(a.args) + list(a.kwonlyargs)

    def param_names(self) -> list[str]:
        a = self.node.args
        out = [x.arg for x in self.params()]
        if a.vararg:
            out.append(a.vararg.arg)
        if a.kwarg:
            out.append(a.kwarg.arg)
        return out


@dataclass
class ClassInfo:
    qualname: str
    name: str
    node: ast.ClassDef
    module: Module
    base_exprs: list[ast.expr] = field(default_factory=list)
    bases: list[str] = field(default_factory=list)  # resolved qualnames of package bases
    external_bases: list[str] = field(default_factory=list)  # ABC, Generic, Sized ...
    generic_args: dict[str, list[str]] = field(default_factory=dict)  # base qualname -> arg source texts
    methods: dict[str, FunctionInfo] = field(default_factory=dict)
    overloads: dict[str, list[FunctionInfo]] = field(default_factory=dict)
    attrs: dict[str, ast.AST] = field(default_factory=dict)  # class-body assignments name -> value
    annotations: dict[str, ast.AST] = field(default_factory=dict)  # class-body annotations name -> annotation

    @property
    def loc(self) -> str:
        return f"{self.module.rel}:{self.node.lineno}"

    @property
    def lists_abc(self) -> bool:
        return "ABC" in self.external_bases


def _stores(st: ast.AST) -> set[str]:
    out = set()
    for x in ast.walk(st):
        if isinstance(x, ast.Name) and isinstance(x.ctx, (ast.Store, ast.Del)):
            out.add(x.id)
        elif isinstance(x, (ast.FunctionDef, ast.ClassDef)):
            out.add(x.name)
    return out


def canonicalize(tree: ast.Module) -> int:
    """Normal form shared by all rules: a boolean held in a local only to be tested once (`t = <test>` ... `if t:`) is put back
    into the `if` (the rules read conditions where they are tested). Only done when the local is stored once, loaded once - in the
    test of a later `if` of the same block - and nothing between the two statements rebinds a name the expression reads.
    Positions of the surviving nodes are unchanged. Returns the number of temporaries inlined."""
    done = 0
    for fn in [n for n in ast.walk(tree) if isinstance(n, (ast.FunctionDef, ast.AsyncFunctionDef))]:
        loads: dict[str, int] = {}
        stores: dict[str, int] = {}
        for x in ast.walk(fn):
            if isinstance(x, ast.Name):
                d = loads if isinstance(x.ctx, ast.Load) else stores
                d[x.id] = d.get(x.id, 0) + 1
        cands = {n for n, c in stores.items() if c == 1 and loads.get(n, 0) == 1}
        blocks = []
        for x in ast.walk(fn):
            for f in ("body", "orelse", "finalbody"):
                sub = getattr(x, f, None)
                if isinstance(sub, list) and sub and isinstance(sub[0], ast.stmt):
                    blocks.append(sub)
        for blk in blocks:
            i = 0
            while i < len(blk):
                st = blk[i]
                if isinstance(st, ast.Assign) and len(st.targets) == 1 and isinstance(st.targets[0], ast.Name) and i + 1 < len(blk) \
                        and isinstance(blk[i + 1], ast.Return) and isinstance(blk[i + 1].value, ast.Name) and blk[i + 1].value.id == st.targets[0].id:
                    # `t = E` directly followed by `return t` (t is dead afterwards)
                    blk[i + 1].value = st.value
                    del blk[i]
                    done += 1
                    continue
                if isinstance(st, ast.Assign) and len(st.targets) == 1 and isinstance(st.targets[0], ast.Name) and st.targets[0].id in cands \
                        and isinstance(st.value, (ast.Call, ast.Compare, ast.BoolOp, ast.UnaryOp)):
                    name = st.targets[0].id
                    reads = {x.id for x in ast.walk(st.value) if isinstance(x, ast.Name)}
                    j = i + 1
                    ok = False
                    while j < len(blk):
                        nxt = blk[j]
                        if isinstance(nxt, ast.If) and any(isinstance(x, ast.Name) and x.id == name for x in ast.walk(nxt.test)):
                            ok = True
                            break
                        if _stores(nxt) & reads or any(isinstance(x, ast.Name) and x.id == name for x in ast.walk(nxt)):
                            break
                        j += 1
                    if ok:
                        target = blk[j]

                        class Sub(ast.NodeTransformer):
                            def visit_Name(self, n: ast.Name):
                                return st.value if n.id == name and isinstance(n.ctx, ast.Load) else n

                        target.test = Sub().visit(target.test)
                        del blk[i]
                        done += 1
                        continue
                i += 1
    return done


def _decorator_names(node: ast.FunctionDef) -> tuple[str, ...]:
    out = []
    for d in node.decorator_list:
        if isinstance(d, ast.Name):
            out.append(d.id)
        elif isinstance(d, ast.Attribute):
            out.append(d.attr)
        elif isinstance(d, ast.Call):
            f = d.func
            out.append(f.id if isinstance(f, ast.Name) else getattr(f, "attr", "?"))
    return tuple(out)


def _collect_imports(body: Iterable[ast.stmt], into: dict[str, str]) -> None:
    for st in body:
        if isinstance(st, ast.Import):
            for a in st.names:
                into[a.asname or a.name.split(".")[0]] = a.name if a.asname else a.name.split(".")[0]
        elif isinstance(st, ast.ImportFrom) and st.module and st.level == 0:
            for a in st.names:
                into[a.asname or a.name] = f"{st.module}.{a.name}"
        elif isinstance(st, ast.If):
            # `if TYPE_CHECKING:` blocks are honoured: annotations refer to them
            _collect_imports(st.body, into)
            _collect_imports(st.orelse, into)
        elif isinstance(st, ast.Try):
            _collect_imports(st.body, into)


class Program:
    def __init__(self, root: str | None = None, sources: dict[str, str] | None = None) -> None:
        """``root`` is the repository root; ``sources`` optionally overrides file contents (rel path -> text)."""
        self.root = root or repo_root()
        self.modules: dict[str, Module] = {}
        self.classes: dict[str, ClassInfo] = {}
        self.functions: dict[str, FunctionInfo] = {}
        self._mro_cache: dict[str, list[ClassInfo]] = {}
        self._load(sources or {})
        self._index()

    # ------------------------------------------------------------------ loading
    def _load(self, overrides: dict[str, str]) -> None:
        pkg_dir = os.path.join(self.root, PKG)
        if not os.path.isdir(pkg_dir):
            raise AnalysisError(f"package directory {pkg_dir} not found")
        files = []
        for d, _dirs, fs in os.walk(pkg_dir):
            for f in fs:
                if f.endswith(".py"):
                    files.append(os.path.join(d, f))
        for path in sorted(files):
            rel = os.path.relpath(path, self.root)
            if rel in overrides:
                src = overrides[rel]
            else:
                with open(path, encoding="utf-8") as fh:
                    src = fh.read()
            try:
                tree = ast.parse(src, filename=rel)
            except SyntaxError as e:
                raise AnalysisError(f"{rel} does not parse: {e}") from e
            canonicalize(tree)
            name = rel[:-3].replace(os.sep, ".")
            if name.endswith(".__init__"):
                name = name[: -len(".__init__")]
            self.modules[name] = Module(name=name, path=path, rel=rel, tree=tree, source=src)

    def _index(self) -> None:
        for m in self.modules.values():
            _collect_imports(m.tree.body, m.imports)
            for st in m.tree.body:
                if isinstance(st, ast.Assign) and len(st.targets) == 1 and isinstance(st.targets[0], ast.Name):
                    m.globals[st.targets[0].id] = st.value
                    m.global_stmts[st.targets[0].id] = st
                elif isinstance(st, ast.AnnAssign) and isinstance(st.target, ast.Name) and st.value is not None:
                    m.globals[st.target.id] = st.value
                    m.global_stmts[st.target.id] = st
        for m in self.modules.values():
            self._index_body(m, m.tree.body, prefix=m.name, cls=None, parent=None)
        for c in self.classes.values():
            self._resolve_bases(c)

    def _index_body(self, m: Module, body, prefix: str, cls: ClassInfo | None, parent: FunctionInfo | None) -> None:
        for st in body:
            if isinstance(st, (ast.FunctionDef, ast.AsyncFunctionDef)):
                q = f"{prefix}.{st.name}"
                fi = FunctionInfo(
                    qualname=q, name=st.name, node=st, module=m, cls=cls, parent=parent,
                    decorators=_decorator_names(st),
                )
                for sub in ast.walk(st):
                    if isinstance(sub, (ast.Import, ast.ImportFrom)):
                        _collect_imports([sub], fi.local_imports)
                if fi.is_overload:
                    if cls is not None and parent is None:
                        cls.overloads.setdefault(st.name, []).append(fi)
                    continue
                # setters: keep the getter as the property, index the setter separately
                if any(d.endswith("setter") for d in fi.decorators):
                    q = q + ".setter"
                    fi.qualname = q
                self.functions[q] = fi
                if cls is not None and parent is None and not q.endswith(".setter"):
                    cls.methods[st.name] = fi
                self._index_body(m, st.body, prefix=q + ".<locals>", cls=cls, parent=fi)
            elif isinstance(st, ast.ClassDef):
                q = f"{prefix}.{st.name}"
                ci = ClassInfo(qualname=q, name=st.name, node=st, module=m, base_exprs=list(st.bases))
                self.classes[q] = ci
                for s2 in st.body:
                    if isinstance(s2, ast.Assign) and len(s2.targets) == 1 and isinstance(s2.targets[0], ast.Name):
                        ci.attrs[s2.targets[0].id] = s2.value
                    elif isinstance(s2, ast.AnnAssign) and isinstance(s2.target, ast.Name):
                        ci.annotations[s2.target.id] = s2.annotation
                        if s2.value is not None:
                            ci.attrs[s2.target.id] = s2.value
                self._index_body(m, st.body, prefix=q, cls=ci, parent=None)
            elif isinstance(st, (ast.If, ast.Try, ast.With, ast.For, ast.While)) and parent is not None:
                # nested defs inside compound statements of a function
                for blk in ("body", "orelse", "finalbody"):
                    self._index_body(m, getattr(st, blk, []) or [], prefix, cls, parent)

    def _resolve_bases(self, c: ClassInfo) -> None:
        for b in c.base_exprs:
            args: list[str] = []
            e = b
            if isinstance(e, ast.Subscript):
                sl = e.slice
                elts = sl.elts if isinstance(sl, ast.Tuple) else [sl]
                args = [ast.unparse(x) for x in elts]
                e = e.value
            target = self.resolve_expr_name(c.module, e)
            if target and target in self.classes:
                c.bases.append(target)
                if args:
                    c.generic_args[target] = args
            else:
                c.external_bases.append(ast.unparse(e).split(".")[-1])

    # ------------------------------------------------------------------ name resolution
    def resolve_dotted(self, dotted: str) -> str:
        """Follow re-exports (``geometer.utils.det`` -> ``geometer.utils.math.det``)."""
        seen = set()
        while dotted not in seen:
            seen.add(dotted)
            if dotted in self.classes or dotted in self.functions or dotted in self.modules:
                return dotted
            mod, _, name = dotted.rpartition(".")
            if mod in self.modules:
                m = self.modules[mod]
                if name in m.imports:
                    dotted = m.imports[name]
                    continue
                return dotted
            return dotted
        return dotted

    def resolve_name(self, module: Module, name: str, func: FunctionInfo | None = None) -> str | None:
        """Resolve a bare identifier to a dotted target (package symbol or external dotted name)."""
        f = func
        while f is not None:
            if name in f.local_imports:
                return self.resolve_dotted(f.local_imports[name])
            f = f.parent
        q = f"{module.name}.{name}"
        if q in self.classes or q in self.functions:
            return q
        if name in module.imports:
            return self.resolve_dotted(module.imports[name])
        if name in module.globals:
            return q
        return None

    def resolve_expr_name(self, module: Module, e: ast.expr, func: FunctionInfo | None = None) -> str | None:
        if isinstance(e, ast.Name):
            return self.resolve_name(module, e.id, func)
        if isinstance(e, ast.Attribute):
            base = self.resolve_expr_name(module, e.value, func)
            if base is None:
                return None
            return self.resolve_dotted(f"{base}.{e.attr}")
        return None

    def global_value(self, dotted: str) -> tuple[Module, ast.AST] | None:
        mod, _, name = dotted.rpartition(".")
        m = self.modules.get(mod)
        if m and name in m.globals:
            return m, m.globals[name]
        return None

    # ------------------------------------------------------------------ classes
    def cls(self, short_or_qual: str) -> ClassInfo:
        if short_or_qual in self.classes:
            return self.classes[short_or_qual]
        hits = [c for c in self.classes.values() if c.name == short_or_qual]
        if len(hits) == 1:
            return hits[0]
        if not hits:
            raise AnalysisError(f"public anchor: class {short_or_qual} not found in the package")
        raise AnalysisError(f"class name {short_or_qual} is ambiguous: {[c.qualname for c in hits]}")

    def find_cls(self, short_or_qual: str) -> ClassInfo | None:
        try:
            return self.cls(short_or_qual)
        except AnalysisError:
            return None

    def func(self, qual_or_short: str) -> FunctionInfo:
        if qual_or_short in self.functions:
            return self.functions[qual_or_short]
        hits = [f for f in self.functions.values() if f.short == qual_or_short]
        if len(hits) == 1:
            return hits[0]
        if not hits:
            raise AnalysisError(f"public anchor: function {qual_or_short} not found in the package")
        raise AnalysisError(f"function name {qual_or_short} is ambiguous")

    def delegate_of(self, fn: FunctionInfo) -> FunctionInfo | None:
        """The function that fn hands its parameters to unchanged, when fn's body is nothing but `return target(<its parameters>)`."""
        body = [st for st in fn.node.body if not (isinstance(st, ast.Expr) and isinstance(getattr(st, "value", None), ast.Constant))]
        if len(body) != 1 or not isinstance(body[0], ast.Return) or not isinstance(body[0].value, ast.Call):
            return None
        call = body[0].value
        params = [p.arg for p in fn.params()]
        tgt = None
        if isinstance(call.func, ast.Attribute) and isinstance(call.func.value, ast.Name) and fn.cls is not None and params \
                and call.func.value.id == params[0] and not fn.is_staticmethod:
            tgt = self.lookup(fn.cls, call.func.attr)
            params = params[1:]
        elif isinstance(call.func, ast.Name):
            q = self.resolve_name(fn.module, call.func.id)
            tgt = self.functions.get(q) if q else None
        if tgt is None or tgt is fn or call.keywords and any(k.arg is None for k in call.keywords):
            return None
        given = [a.id if isinstance(a, ast.Name) else None for a in call.args] + [k.value.id if isinstance(k.value, ast.Name) and k.arg == k.value.id else None
                                                                                   for k in call.keywords]
        if given != params:
            return None
        return tgt

    def body_of(self, fn: FunctionInfo) -> FunctionInfo:
        """fn itself, or the implementation it delegates to unchanged (followed up to three steps): rules anchored on a public
        name read the code that actually runs."""
        cur = fn
        for _ in range(3):
            nxt = self.delegate_of(cur)
            if nxt is None:
                break
            cur = nxt
        return cur

    def private_helpers(self, fn: FunctionInfo, depth: int = 2) -> list[FunctionInfo]:
        """Private functions of the same module / private methods of the same class hierarchy that fn calls (transitively up to depth):
        the pieces an 'extract helper' refactoring leaves behind. fn itself comes first."""
        out, seen, frontier = [fn], {fn.qualname}, [fn]
        for _ in range(depth):
            nxt = []
            for f in frontier:
                ps = f.params()
                selfn = ps[0].arg if (f.cls is not None and ps and not f.is_staticmethod) else None
                for call in ast.walk(f.node):
                    if not isinstance(call, ast.Call):
                        continue
                    tgt = None
                    cf = call.func
                    if isinstance(cf, ast.Name):
                        q = self.resolve_name(f.module, cf.id)
                        tgt = self.functions.get(q) if q else None
                        # private = underscore name, or any function of a private module (geometer/_helpers.py)
                        if tgt is not None and not (cf.id.startswith("_") or tgt.module.name.split(".")[-1].startswith("_")):
                            tgt = None
                    elif isinstance(cf, ast.Attribute) and cf.attr.startswith("_") and not cf.attr.startswith("__") and isinstance(cf.value, ast.Name) \
                            and f.cls is not None and cf.value.id in (selfn, "cls", f.cls.name):
                        tgt = self.lookup(f.cls, cf.attr)
                    if tgt is not None and tgt.qualname not in seen:
                        seen.add(tgt.qualname)
                        out.append(tgt)
                        nxt.append(tgt)
            frontier = nxt
        return out

    def find_func(self, qual_or_short: str) -> FunctionInfo | None:
        try:
            return self.func(qual_or_short)
        except AnalysisError:
            return None

    def mro(self, c: ClassInfo) -> list[ClassInfo]:
        if c.qualname in self._mro_cache:
            return self._mro_cache[c.qualname]
        seqs = [self.mro(self.classes[b])[:] for b in c.bases] + [[self.classes[b] for b in c.bases]]
        res = [c]
        seqs = [s for s in seqs if s]
        while seqs:
            for s in seqs:
                cand = s[0]
                if not any(cand in t[1:] for t in seqs):
                    break
            else:
                raise AnalysisError(f"inconsistent MRO for {c.qualname}")
            res.append(cand)
            seqs = [[x for x in s if x is not cand] for s in seqs]
            seqs = [s for s in seqs if s]
        self._mro_cache[c.qualname] = res
        return res

    def is_subclass(self, c: ClassInfo, base: ClassInfo) -> bool:
        return base in self.mro(c)

    def subclasses(self, c: ClassInfo, strict: bool = False) -> list[ClassInfo]:
        cache = self.__dict__.setdefault("_sub_cache", {})
        key = (c.qualname, strict)
        if key not in cache:
            out = [k for k in self.classes.values() if c in self.mro(k)]
            if strict:
                out = [k for k in out if k is not c]
            cache[key] = sorted(out, key=lambda k: k.qualname)
        return list(cache[key])

    def lookup(self, c: ClassInfo, name: str) -> FunctionInfo | None:
        for k in self.mro(c):
            if name in k.methods:
                return k.methods[name]
        return None

    def lookup_after(self, c: ClassInfo, owner: ClassInfo, name: str) -> FunctionInfo | None:
        """``super().name`` seen from a method defined in ``owner`` when the instance class is ``c``."""
        mro = self.mro(c)
        if owner not in mro:
            return None
        for k in mro[mro.index(owner) + 1 :]:
            if name in k.methods:
                return k.methods[name]
        return None

    def class_attr(self, c: ClassInfo, name: str) -> tuple[ClassInfo, ast.AST] | None:
        for k in self.mro(c):
            if name in k.attrs:
                return k, k.attrs[name]
        return None

    def class_annotation(self, c: ClassInfo, name: str) -> ast.AST | None:
        for k in self.mro(c):
            if name in k.annotations:
                return k.annotations[name]
        return None

    def abstract_methods(self, c: ClassInfo) -> set[str]:
        names: set[str] = set()
        for k in reversed(self.mro(c)):
            for n, f in k.methods.items():
                if f.is_abstract:
                    names.add(n)
                else:
                    names.discard(n)
        return names

    def is_concrete(self, c: ClassInfo) -> bool:
        return not c.lists_abc and not self.abstract_methods(c)

    def concrete_subclasses(self, c: ClassInfo) -> list[ClassInfo]:
        return [k for k in self.subclasses(c) if self.is_concrete(k)]

    def package_functions(self) -> Iterator[FunctionInfo]:
        for q in sorted(self.functions):
            yield self.functions[q]

    # ------------------------------------------------------------------ annotations
    def annotation_classes(self, module: Module, ann: ast.AST | None, func: FunctionInfo | None = None) -> list[ClassInfo]:
        """Package classes named in an annotation (unions are flattened); strings are parsed."""
        out: list[ClassInfo] = []
        if ann is None:
            return out
        if isinstance(ann, ast.Constant) and isinstance(ann.value, str):
            try:
                ann = ast.parse(ann.value, mode="eval").body
            except SyntaxError:
                return out
        if isinstance(ann, ast.BinOp) and isinstance(ann.op, ast.BitOr):
            return self.annotation_classes(module, ann.left, func) + self.annotation_classes(module, ann.right, func)
        if isinstance(ann, ast.Subscript):
            head = ast.unparse(ann.value).split(".")[-1]
            sl = ann.slice
            elts = sl.elts if isinstance(sl, ast.Tuple) else [sl]
            if head in ("Union", "Optional"):
                for e in elts:
                    out += self.annotation_classes(module, e, func)
                return out
            if head in ("list", "List", "tuple", "Tuple", "Sequence", "Iterable", "Iterator", "Generator", "type", "Unpack"):
                return out  # containers: handled by the caller via annotation_elem
            t = self.resolve_expr_name(module, ann.value, func)
            if t in self.classes:
                out.append(self.classes[t])
            return out
        if isinstance(ann, (ast.Name, ast.Attribute)):
            t = self.resolve_expr_name(module, ann, func)
            if t in self.classes:
                out.append(self.classes[t])
        return out


def iter_stmts(body: Iterable[ast.stmt]) -> Iterator[ast.stmt]:
    """All statements of a function body, depth first, not entering nested defs/classes."""
    for st in body:
        yield st
        if isinstance(st, (ast.FunctionDef, ast.AsyncFunctionDef, ast.ClassDef)):
            continue
        for blk in ("body", "orelse", "finalbody"):
            sub = getattr(st, blk, None)
            if sub:
                yield from iter_stmts(sub)
        if isinstance(st, ast.Try):
            for h in st.handlers:
                yield from iter_stmts(h.body)
        if hasattr(ast, "Match") and isinstance(st, getattr(ast, "Match")):
            for case in st.cases:
                yield from iter_stmts(case.body)


def walk_no_nested(node: ast.AST) -> Iterator[ast.AST]:
    """ast.walk that does not descend into nested function/class definitions or lambdas' bodies."""
    todo = [node]
    first = True
    while todo:
        n = todo.pop()
        if not first and isinstance(n, (ast.FunctionDef, ast.AsyncFunctionDef, ast.ClassDef)):
            continue
        first = False
        yield n
        todo.extend(ast.iter_child_nodes(n))
