"""E10 - intersection plumbing of the polytope classes. Serves C18."""

from __future__ import annotations

import ast
from typing import Iterator

from geolint.model import ClassInfo, FunctionInfo, Program, norm_stmt, walk_no_nested
from geolint.report import INFO, PROVEN, UNDECIDED, VIOLATION, Run
from geolint.typeval import TypeEval

Ctx = tuple  # of ('if', test, polarity) | ('except', handler) | ('try',) | ('tryelse',)


def walk_ctx(body: list[ast.stmt], ctx: Ctx = ()) -> Iterator[tuple[ast.stmt, Ctx]]:
    for st in body:
        yield st, ctx
        if isinstance(st, ast.If):
            yield from walk_ctx(st.body, ctx + (("if", st.test, True),))
            yield from walk_ctx(st.orelse, ctx + (("if", st.test, False),))
        elif isinstance(st, (ast.For, ast.While)):
            yield from walk_ctx(st.body, ctx)
            yield from walk_ctx(st.orelse, ctx)
        elif isinstance(st, ast.With):
            yield from walk_ctx(st.body, ctx)
        elif hasattr(ast, "Match") and isinstance(st, ast.Match):
            for case in st.cases:
                # a case arm is a conditional arm: represent its pattern as an opaque test
                test = ast.Name(id=f"<case {ast.unparse(case.pattern)[:40]}>", ctx=ast.Load())
                ast.copy_location(test, st)
                yield from walk_ctx(case.body, ctx + (("if", test, True),))
        elif isinstance(st, ast.Try):
            yield from walk_ctx(st.body, ctx + (("try", st),))
            for h in st.handlers:
                yield from walk_ctx(h.body, ctx + (("except", h),))
            yield from walk_ctx(st.orelse, ctx + (("tryelse", st),))
            yield from walk_ctx(st.finalbody, ctx)


def _isinstance_of(test: ast.AST, name: str) -> list[ast.AST] | None:
    """class expressions K if test is exactly isinstance(name, K)."""
    if (isinstance(test, ast.Call) and isinstance(test.func, ast.Name) and test.func.id == "isinstance" and len(test.args) == 2
            and isinstance(test.args[0], ast.Name) and test.args[0].id == name):
        k = test.args[1]
        return list(k.elts) if isinstance(k, ast.Tuple) else [k]
    return None


def narrowed_classes(prog: Program, fn: FunctionInfo, ctx: Ctx, name: str) -> list[ClassInfo]:
    """Classes `name` is known to be an instance of from enclosing `if isinstance(name, K)` arms (True polarity only)."""
    out = []
    for c in ctx:
        if c[0] == "if" and c[2] is True:
            tests = c[1].values if isinstance(c[1], ast.BoolOp) and isinstance(c[1].op, ast.And) else [c[1]]
            for t in tests:
                ks = _isinstance_of(t, name)
                if ks and len(ks) == 1:
                    q = prog.resolve_expr_name(fn.module, ks[0], fn)
                    if q in prog.classes:
                        out.append(prog.classes[q])
    return out


def _mentions(e: ast.AST, name: str) -> bool:
    return any(isinstance(x, ast.Name) and x.id == name for x in ast.walk(e))


def _contains_calls(e: ast.AST, arg: str) -> list[ast.Call]:
    out = []
    for x in ast.walk(e):
        if (isinstance(x, ast.Call) and isinstance(x.func, ast.Attribute) and x.func.attr == "contains" and x.args
                and isinstance(x.args[0], ast.Name) and x.args[0].id == arg):
            out.append(x)
    return out


def _is_meet_call(e: ast.AST) -> ast.Call | None:
    if isinstance(e, ast.Call) and isinstance(e.func, ast.Name) and e.func.id == "cast" and len(e.args) == 2:
        return _is_meet_call(e.args[1])
    if isinstance(e, ast.Call):
        f = e.func
        name = f.attr if isinstance(f, ast.Attribute) else getattr(f, "id", "")
        if name == "meet":
            return e
    return None


def intersect_methods(prog: Program) -> list[FunctionInfo]:
    poly = prog.cls("PolytopeTensor")
    out = []
    for c in prog.subclasses(poly):
        f = c.methods.get("intersect")
        if f is not None:
            out.append(prog.body_of(f))
    return out


def _has_bounded_contains(prog: Program, c: ClassInfo) -> bool:
    poly = prog.cls("PolytopeTensor")
    return prog.is_subclass(c, poly) and prog.lookup(c, "contains") is not None


def rule_F(run: Run, prog: Program) -> int:
    run.rule("E10.F1", "every bounded operand filters the candidate points: the boolean index applied to the meet result contains "
                       "<self...>.contains(result), and other.contains(result) whenever `other` is narrowed to a bounded polytope kind")
    run.rule("E10.F2", "in a handler of LinearDependenceError as e, every use of self/self._plane for meet/contains is re-indexed by "
                       "~e.dependent_values, and re-indexing the parameter is guarded by a test that separates collections from single "
                       "objects (a guard already implied by an enclosing identical isinstance is no guard)")
    run.rule("E10.F6", "a filter mask assembled on several paths of one try statement (no exception / each handler that goes on to the shared result) is "
                       "restricted to the other operand on all of them or on none")
    run.rule("E10.F3", "results gathered from several facets (self.edges / self.faces .intersect) pass through distinct()")
    run.rule("E10.F4", "a meet(..., _check_dependence=False) whose result is returned as points carries ~result.is_zero() in its filter")
    te = TypeEval(prog)
    n = 0
    for fn in intersect_methods(prog):
        n += 1
        ps = fn.params()
        if len(ps) < 2:
            continue
        selfn, other = ps[0].arg, ps[1].arg
        rel = fn.module.rel
        # candidate variables: assigned from a meet call
        cand: dict[str, list[tuple[ast.Assign, Ctx, ast.Call]]] = {}
        assigns: dict[str, list[tuple[ast.Assign, Ctx]]] = {}
        for st, ctx in walk_ctx(fn.node.body):
            if isinstance(st, ast.Assign) and len(st.targets) == 1 and isinstance(st.targets[0], ast.Name):
                nm = st.targets[0].id
                assigns.setdefault(nm, []).append((st, ctx))
                mc = _is_meet_call(st.value)
                if mc is not None:
                    cand.setdefault(nm, []).append((st, ctx, mc))
        # mask expressions applied to a candidate variable
        masks: list[tuple[str, ast.AST, Ctx, ast.stmt]] = []
        for st, ctx in walk_ctx(fn.node.body):
            for x in walk_no_nested(st) if not isinstance(st, (ast.If, ast.Try, ast.For, ast.While, ast.With)) else []:
                if isinstance(x, ast.Subscript) and isinstance(x.value, ast.Name) and x.value.id in cand and isinstance(x.ctx, ast.Load):
                    sl = x.slice
                    if isinstance(sl, ast.Name) and sl.id in assigns:
                        for a_st, a_ctx in assigns[sl.id]:
                            masks.append((x.value.id, a_st.value, a_ctx, a_st))
                    else:
                        masks.append((x.value.id, sl, ctx, st))
        # names whose value derives from self (polygons = self; polygons = PolygonCollection.from_tensor(self[...]))
        from_self = {selfn}
        changed = True
        while changed:
            changed = False
            for nm, lst in assigns.items():
                if nm not in from_self and nm != other and any(any(isinstance(x, ast.Name) and x.id in from_self for x in ast.walk(a.value)) for a, _c in lst):
                    from_self.add(nm)
                    changed = True
        from_self.discard(other)

        def mentions_self(e: ast.AST) -> bool:
            return any(isinstance(x, ast.Name) and x.id in from_self for x in ast.walk(e))

        # a mask that is built up step by step (m = A; m = m & B; m &= C) is judged once, as the conjunction of all its steps
        accumulated: dict[str, list[ast.AST]] = {}
        for nm, lst in assigns.items():
            if len(lst) > 1 and any(_mentions(a.value, nm) for a, _c in lst):
                accumulated[nm] = [a.value for a, _c in lst]
        for st0, _c0 in walk_ctx(fn.node.body):
            if isinstance(st0, ast.AugAssign) and isinstance(st0.target, ast.Name) and isinstance(st0.op, ast.BitAnd):
                accumulated.setdefault(st0.target.id, [a.value for a, _c in assigns.get(st0.target.id, [])]).append(st0.value)
        # F6: a mask that is built on several paths of one try statement (body + else / each handler) must be filtered by the other operand on
        # ALL of them as soon as it is on one: the paths are siblings that produce the same result variable
        from_other = {other}
        changed = True
        while changed:
            changed = False
            for nm, lst in assigns.items():
                if nm not in from_other and nm not in from_self and any(any(isinstance(x, ast.Name) and x.id in from_other for x in ast.walk(a.value)) for a, _c in lst):
                    from_other.add(nm)
                    changed = True
        steps_by_mask: dict[str, list[tuple[ast.AST, Ctx, ast.stmt]]] = {}
        for st0, c0 in walk_ctx(fn.node.body):
            if isinstance(st0, ast.Assign) and len(st0.targets) == 1 and isinstance(st0.targets[0], ast.Name):
                steps_by_mask.setdefault(st0.targets[0].id, []).append((st0.value, c0, st0))
            elif isinstance(st0, ast.AugAssign) and isinstance(st0.target, ast.Name) and isinstance(st0.op, ast.BitAnd):
                steps_by_mask.setdefault(st0.target.id, []).append((st0.value, c0, st0))
        used_as_mask = {sl.id for st1, _c in walk_ctx(fn.node.body) for x in ast.walk(st1) if isinstance(x, ast.Subscript) and isinstance(x.value, ast.Name)
                        and x.value.id in cand and isinstance((sl := x.slice), ast.Name)}
        for mname in sorted(used_as_mask & set(steps_by_mask)):
            steps = steps_by_mask[mname]
            trys = {id(c[1]): c[1] for _v, ctx_, _s in steps for c in ctx_ if c[0] in ("try", "tryelse")} | {
                id(t): t for _v, ctx_, _s in steps for c in ctx_ if c[0] == "except" for t in [x for x in ast.walk(fn.node) if isinstance(x, ast.Try) and c[1] in x.handlers]}
            for t in trys.values():
                def arm_of(ctx_):
                    for c in ctx_:
                        if c[0] in ("try", "tryelse") and c[1] is t:
                            return "normal"
                        if c[0] == "except" and c[1] in t.handlers:
                            return ("handler", t.handlers.index(c[1]))
                    return "all"
                arms = ["normal"] + [("handler", i) for i in range(len(t.handlers))]
                per_arm = {a: [v for v, ctx_, _s in steps if arm_of(ctx_) in (a, "all")] for a in arms}
                # a handler that leaves the function (return / raise) without using the mask is not a path to the shared result
                live = []
                for a in arms:
                    if a == "normal":
                        live.append(a)
                        continue
                    h = t.handlers[a[1]]
                    leaves = bool(h.body) and isinstance(h.body[-1], (ast.Return, ast.Raise))
                    if not leaves and any(arm_of(ctx_) == a for _v, ctx_, _s in steps):
                        live.append(a)
                if len(live) < 2:
                    continue

                def filters_other(vals):
                    return any(isinstance(x, ast.Call) and isinstance(x.func, ast.Attribute) and x.func.attr == "contains" and any(
                        isinstance(y, ast.Name) and y.id in from_other for y in ast.walk(x.func.value)) and not mentions_self(x.func.value)
                               for v in vals for x in ast.walk(v))

                have = {a: filters_other(per_arm[a]) for a in live}
                n += 1
                loc6 = f"{rel}:{t.lineno}"
                if any(have.values()) and not all(have.values()):
                    missing = [("the handler of " + ast.unparse(t.handlers[a[1]].type)[:40] if a != "normal" else "the path without an exception") for a in live if not have[a]]
                    run.add("E10.F6", fn.short, f"mask `{mname}` across the paths of one try statement", VIOLATION,
                            f"the mask `{mname}` is restricted to the other operand (`<{', '.join(sorted(from_other))}>.contains(...)`) on one path of the try "
                            f"statement but not on {', '.join(missing)}: on that path the bounded operand is replaced by its supporting line and points "
                            f"outside it are returned", loc6)
                else:
                    run.add("E10.F6", fn.short, f"mask `{mname}` across the paths of one try statement", PROVEN,
                            "all paths of the try statement filter the result alike", loc6)
        seen_masks = set()
        for var, mexpr, ctx, st in masks:
            key = id(mexpr)
            if key in seen_masks:
                continue
            seen_masks.add(key)
            loc = f"{rel}:{st.lineno}"
            label = norm_stmt(st)
            mask_name = st.targets[0].id if isinstance(st, ast.Assign) and len(st.targets) == 1 and isinstance(st.targets[0], ast.Name) else None
            if mask_name in accumulated:
                if ("acc", mask_name) in seen_masks:
                    continue
                seen_masks.add(("acc", mask_name))
                mexpr = ast.BoolOp(op=ast.And(), values=list(accumulated[mask_name]))
                label = f"{mask_name} = <conjunction of {len(accumulated[mask_name])} steps>"
            # locals used inside the filter expression stand for their defining expressions (ind = X.contains(result); result[ind & ...])
            extra = []
            for x in ast.walk(mexpr):
                if isinstance(x, ast.Name) and x.id in assigns and x.id not in (var, selfn, other) and x.id != mask_name:
                    for a_st, a_ctx in assigns[x.id]:
                        if _ctx_compatible(a_ctx, ctx):
                            extra.append(a_st.value)
            if extra:
                mexpr = ast.BoolOp(op=ast.And(), values=[mexpr] + extra)
            cc = _contains_calls(mexpr, var)
            if not isinstance(mexpr, (ast.BinOp, ast.Call, ast.UnaryOp, ast.BoolOp)):
                run.add("E10.F1", fn.short, label, UNDECIDED, "filter expression is not a visible conjunction", loc)
                continue
            helper_hidden = any(isinstance(x, ast.Call) and isinstance(x.func, ast.Name) and x.func.id not in ("cast",) for x in ast.walk(mexpr))
            self_ok = any(mentions_self(c.func.value) for c in cc)
            need_other = any(_has_bounded_contains(prog, k) for k in narrowed_classes(prog, fn, ctx, other)) and mask_name not in accumulated
            other_ok = any(_mentions(c.func.value, other) and not mentions_self(c.func.value) for c in cc)
            if not self_ok:
                if helper_hidden:
                    run.add("E10.F1", fn.short, label, UNDECIDED, "part of the filter is hidden in a helper call", loc)
                else:
                    run.add("E10.F1", fn.short, label, VIOLATION,
                            f"the candidate points `{var}` are filtered without {selfn}.contains({var}): points of the supporting "
                            f"line/plane outside this polytope are returned", loc)
            elif need_other and not other_ok:
                if helper_hidden:
                    run.add("E10.F1", fn.short, label, UNDECIDED, "part of the filter is hidden in a helper call", loc)
                else:
                    run.add("E10.F1", fn.short, label, VIOLATION,
                            f"`{other}` is narrowed to a bounded kind here but the filter lacks {other}.contains({var}): points outside "
                            f"the other segment are returned", loc)
            else:
                run.add("E10.F1", fn.short, label, PROVEN,
                        "filter contains the membership test of self" + (" and of the bounded other operand" if need_other else ""), loc)
            # F4
            for a_st, a_ctx, mc in cand.get(var, []):
                kw = {k.arg: k.value for k in mc.keywords if k.arg}
                v = kw.get("_check_dependence")
                if isinstance(v, ast.Constant) and v.value is False:
                    # only when this assignment can reach the mask (same arm or enclosing)
                    if not _ctx_compatible(a_ctx, ctx):
                        continue
                    has = any(
                        isinstance(x, ast.UnaryOp) and isinstance(x.op, ast.Invert) and isinstance(x.operand, ast.Call)
                        and isinstance(x.operand.func, ast.Attribute) and x.operand.func.attr == "is_zero"
                        and isinstance(x.operand.func.value, ast.Name) and x.operand.func.value.id == var
                        for x in ast.walk(mexpr))
                    if has:
                        run.add("E10.F4", fn.short, label, PROVEN, "zero (dependent) results are masked out", loc)
                    elif helper_hidden:
                        run.add("E10.F4", fn.short, label, UNDECIDED, "part of the filter is hidden in a helper call", loc)
                    else:
                        run.add("E10.F4", fn.short, label, VIOLATION,
                                f"{ast.unparse(mc)[:60]} suppresses the dependence check but the filter lacks ~{var}.is_zero(): for parallel/"
                                f"collinear operands the zero vector is returned as a point", loc)
        # a candidate returned without any mask
        for var, lst in cand.items():
            for r in walk_no_nested(fn.node):
                if isinstance(r, ast.Return) and isinstance(r.value, ast.Call) and isinstance(r.value.func, ast.Name) and r.value.func.id == "list" \
                        and r.value.args and isinstance(r.value.args[0], ast.Name) and r.value.args[0].id == var:
                    run.add("E10.F1", fn.short, norm_stmt(r), VIOLATION,
                            f"the meet result `{var}` is returned unfiltered: points outside the polytope are returned", f"{rel}:{r.lineno}")
        # F5: the bounded operand must not be replaced by its unbounded support while its membership test is still to come
        def support_expr(e: ast.AST, depth: int = 0) -> bool:
            """expression that yields the supporting line/plane of `other` (other._line, or a helper that returns <param>._line)"""
            if isinstance(e, ast.Attribute) and e.attr in ("_line", "_plane") and isinstance(e.value, ast.Name) and e.value.id == other:
                return True
            if isinstance(e, ast.IfExp):
                return support_expr(e.body, depth) or support_expr(e.orelse, depth)
            if isinstance(e, ast.Call) and depth < 2 and any(isinstance(a, ast.Name) and a.id == other for a in e.args):
                t = prog.resolve_expr_name(fn.module, e.func, fn)
                helper = prog.functions.get(t) if t else None
                if helper is None and isinstance(e.func, ast.Attribute) and fn.cls is not None:
                    helper = prog.lookup(fn.cls, e.func.attr)
                if helper is not None:
                    hp = [p.arg for p in helper.params()]
                    for r0 in walk_no_nested(helper.node):
                        if isinstance(r0, ast.Return) and isinstance(r0.value, ast.Attribute) and r0.value.attr in ("_line", "_plane") \
                                and isinstance(r0.value.value, ast.Name) and r0.value.value.id in hp:
                            return True
            return False

        for st, ctx in walk_ctx(fn.node.body):
            if isinstance(st, ast.Assign) and any(isinstance(t, ast.Name) and t.id == other for t in st.targets) and support_expr(st.value):
                later = [x for x in walk_no_nested(fn.node) if getattr(x, "lineno", 0) > st.lineno and (
                    (isinstance(x, ast.Call) and isinstance(x.func, ast.Attribute) and x.func.attr == "contains" and isinstance(x.func.value, ast.Name) and x.func.value.id == other)
                    or (isinstance(x, ast.Call) and isinstance(x.func, ast.Name) and x.func.id == "isinstance" and x.args and isinstance(x.args[0], ast.Name) and x.args[0].id == other))]
                if later:
                    run.add("E10.F1", fn.short, norm_stmt(st), VIOLATION,
                            f"`{norm_stmt(st)[:70]}` replaces the operand `{other}` by its unbounded supporting line/plane, but the code below still decides "
                            f"by `{ast.unparse(later[0])[:50]}` whether to apply the segment's membership test: on this path the test is skipped (or applied "
                            f"to the line), so points beyond the segment's ends are returned", f"{rel}:{st.lineno}")
        # F3
        for r in walk_no_nested(fn.node):
            if not (isinstance(r, ast.Return) and r.value is not None):
                continue
            for x in ast.walk(r.value):
                if (isinstance(x, ast.Call) and isinstance(x.func, ast.Attribute) and x.func.attr == "intersect"
                        and isinstance(x.func.value, ast.Attribute) and isinstance(x.func.value.value, ast.Name)
                        and x.func.value.value.id == selfn):
                    prop_name = x.func.value.attr
                    tv = te.method_result(te.param_types(fn)[selfn], prop_name)
                    is_coll = any(prog.is_subclass(prog.classes[q], prog.cls("TensorCollection")) for q in tv.classes)
                    if not is_coll:
                        continue
                    wrapped = any(isinstance(y, ast.Call) and isinstance(y.func, ast.Name) and y.func.id == "distinct"
                                  and any(z is x for z in ast.walk(y)) for y in ast.walk(r.value))
                    loc = f"{rel}:{r.lineno}"
                    if wrapped:
                        run.add("E10.F3", fn.short, norm_stmt(r), PROVEN, f"points gathered from {selfn}.{prop_name} pass through distinct()", loc)
                    else:
                        run.add("E10.F3", fn.short, norm_stmt(r), VIOLATION,
                                f"points gathered from the facets {selfn}.{prop_name} are returned without distinct(): an intersection "
                                f"through a shared vertex/edge is returned more than once", loc)
        # F2
        for st, ctx in walk_ctx(fn.node.body):
            h = next((c[1] for c in reversed(ctx) if c[0] == "except"), None)
            if h is None or h.name is None or h.type is None:
                continue
            tname = prog.resolve_expr_name(fn.module, h.type, fn) or ""
            if not tname.endswith("LinearDependenceError"):
                continue
            e = h.name
            loc = f"{rel}:{st.lineno}"

            mask_aliases = {nm for nm, lst in assigns.items() if any(
                any(isinstance(y, ast.Attribute) and y.attr == "dependent_values" and isinstance(y.value, ast.Name) and y.value.id == e
                    for y in ast.walk(a.value)) for a, _c in lst)}

            def reindexed(expr: ast.AST, depth: int = 0) -> bool:
                for x in ast.walk(expr):
                    if isinstance(x, ast.Subscript):
                        for y in ast.walk(x.slice):
                            if isinstance(y, ast.Attribute) and y.attr == "dependent_values" and isinstance(y.value, ast.Name) and y.value.id == e:
                                return True
                            if isinstance(y, ast.Name) and y.id in mask_aliases:
                                return True
                    if isinstance(x, ast.Name) and x.id in assigns and x.id not in (selfn, other) and depth < 2:
                        # a local that was itself built from re-indexed data inside this handler
                        for a_st, a_ctx in assigns[x.id]:
                            if any(c[0] == "except" and c[1] is h for c in a_ctx) and reindexed(a_st.value, depth + 1):
                                return True
                return False

            if isinstance(st, (ast.If, ast.Try, ast.For, ast.While, ast.With)):
                continue
            # (i) re-indexing of the parameter `other`
            if isinstance(st, ast.Assign) and any(isinstance(t, ast.Name) and t.id == other for t in st.targets) and reindexed(st.value):
                # guards: enclosing ifs inside the handler
                inner = []
                seen_handler = False
                for c in ctx:
                    if c[0] == "except" and c[1] is h:
                        seen_handler = True
                        continue
                    if seen_handler and c[0] == "if":
                        inner.append(c)
                outer = [c for c in ctx[: next(i for i, c in enumerate(ctx) if c[0] == "except" and c[1] is h)] if c[0] == "if" and c[2] is True]
                verdict, msg = None, ""
                if not inner:
                    verdict, msg = VIOLATION, (f"`{other}` is re-indexed by ~{e}.dependent_values without a guard: a single (non-collection) "
                                               f"operand cannot be indexed by the mask (IndexError)")
                for g in inner:
                    tsrc = ast.unparse(g[1])
                    ks = _isinstance_of(g[1], other)
                    if "free_indices" in tsrc:
                        verdict, msg = PROVEN, "guarded by a free_indices test"
                        break
                    if ks:
                        qs = [prog.resolve_expr_name(fn.module, k, fn) for k in ks]
                        implied = False
                        for oc in outer:
                            oks = _isinstance_of(oc[1], other)
                            if oks:
                                oq = [prog.resolve_expr_name(fn.module, k, fn) for k in oks]
                                if all(any(q2 in prog.classes and q in prog.classes and prog.is_subclass(prog.classes[q2], prog.classes[q]) for q in qs) for q2 in oq):
                                    implied = True
                        coll = prog.cls("TensorCollection")
                        if implied:
                            verdict, msg = VIOLATION, (
                                f"the guard `{tsrc}` is already implied by the enclosing `if {ast.unparse(outer[-1][1])}`: a single {ks and ast.unparse(ks[0])} "
                                f"is indexed by ~{e}.dependent_values as if it were a collection (IndexError when a face is parallel)")
                        elif all(q in prog.classes and prog.is_subclass(prog.classes[q], coll) for q in qs):
                            verdict, msg = PROVEN, "guarded by an isinstance test against a collection class"
                            break
                        else:
                            verdict, msg = UNDECIDED, f"guard `{tsrc}` not recognised as separating collections from single objects"
                    elif verdict is None:
                        verdict, msg = UNDECIDED, f"guard `{tsrc}` not recognised"
                run.add("E10.F2", fn.short, norm_stmt(st), verdict or UNDECIDED, msg, loc)
            # (ii) uses of self in meet / contains inside the handler must be re-indexed
            for x in walk_no_nested(st):
                if isinstance(x, ast.Call) and isinstance(x.func, ast.Attribute) and x.func.attr in ("meet", "contains") and mentions_self(x.func.value):
                    lab = norm_stmt(x)
                    if reindexed(x.func.value):
                        run.add("E10.F2", fn.short, lab, PROVEN, f"receiver is re-indexed by ~{e}.dependent_values", f"{rel}:{x.lineno}")
                    else:
                        run.add("E10.F2", fn.short, lab, VIOLATION,
                                f"inside the LinearDependenceError handler `{ast.unparse(x.func.value)[:50]}` is used without re-indexing by "
                                f"~{e}.dependent_values: the dependent faces are met again / shapes no longer match", f"{rel}:{x.lineno}")
    return n


def rule_F7(run: Run, prog: Program) -> int:
    """a local that carries a bounded operand (the parameter narrowed to a polytope class B, or None when it is not one) keeps carrying it: a
    rebinding `x = <re-indexed x> if isinstance(x, C) else None` with C a STRICT subclass of B drops the operand for the objects of B that are
    not of C (the single Segment next to SegmentCollection), and the filter `x.contains(result)` guarded by `x is not None` is silently skipped"""
    run.rule("E10.F7", "a local that carries the bounded operand (`seg = other if isinstance(other, B) else None`) is never rebound to None under a test "
                       "`isinstance(seg, C)` with C a strict subclass of B: the objects of B outside C would lose their membership filter")
    n = 0
    for fn in intersect_methods(prog):
        ps = fn.params()
        if len(ps) < 2:
            continue
        other = ps[1].arg
        carriers: dict[str, ClassInfo] = {}

        def narrowing(e: ast.AST, subject: str):
            """(class, value when true, value when false) of `A if isinstance(subject, K) else B`"""
            if isinstance(e, ast.Call) and getattr(e.func, "id", "") == "cast" and len(e.args) == 2:
                e = e.args[1]
            if isinstance(e, ast.IfExp) and isinstance(e.test, ast.Call) and getattr(e.test.func, "id", "") == "isinstance" and len(e.test.args) == 2 \
                    and isinstance(e.test.args[0], ast.Name) and e.test.args[0].id == subject and isinstance(e.test.args[1], ast.Name):
                k = prog.find_cls(e.test.args[1].id)
                return k, e.body, e.orelse
            return None

        def is_none(x: ast.AST) -> bool:
            return isinstance(x, ast.Constant) and x.value is None

        for st, _ctx in walk_ctx(fn.node.body):
            if not (isinstance(st, ast.Assign) and len(st.targets) == 1 and isinstance(st.targets[0], ast.Name)):
                continue
            name = st.targets[0].id
            got = narrowing(st.value, other)
            if got is not None and got[0] is not None and is_none(got[2]) and isinstance(got[1], ast.Name) and got[1].id == other and _has_bounded_contains(prog, got[0]):
                carriers[name] = got[0]
                continue
            if name in carriers:
                got = narrowing(st.value, name)
                if got is None or got[0] is None:
                    continue
                n += 1
                k, _a, b = got
                loc = f"{fn.module.rel}:{st.lineno}"
                base = carriers[name]
                if is_none(b) and k is not base and prog.is_subclass(k, base):
                    run.add("E10.F7", fn.short, f"`{name}` rebound under isinstance({name}, {k.name})", VIOLATION,
                            f"`{norm_stmt(st)[:90]}`: `{name}` carries the operand narrowed to {base.name}; for a {base.name} that is not a {k.name} (a single object) it becomes None "
                            f"here and the filter `{name}.contains(...)` behind `{name} is not None` is skipped - points outside the operand are returned", loc)
                else:
                    run.add("E10.F7", fn.short, f"`{name}` rebound under isinstance({name}, {k.name})", PROVEN, "the operand is kept for every object it was narrowed to", loc)
    return n


def _ctx_compatible(a: Ctx, b: Ctx) -> bool:
    """assignment context a can flow to use context b: no contradictory arm of the same If."""
    for ca in a:
        if ca[0] != "if":
            continue
        for cb in b:
            if cb[0] == "if" and cb[1] is ca[1] and cb[2] != ca[2]:
                return False
    return True
