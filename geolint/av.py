"""Abstract values of the E1 effect/alias engine: object identity, shared attribute objects, ndarray memory."""

from __future__ import annotations

from dataclasses import dataclass, replace

DEF, SOME, UNK = 3, 2, 1
CERT_NAME = {DEF: "DEF", SOME: "SOME", UNK: "UNK"}

# kinds
ND, ALIKE, TENSOR, LIST, DICT, SET, IMM, TUPLE, NONE, OBJ, FUNC, CLS, UNKN, BOTTOM = (
    "nd", "alike", "tensor", "list", "dict", "set", "imm", "tuple", "none", "obj", "func", "cls", "unk", "bottom")
CONTAINERS = {LIST, DICT, SET, TUPLE}
MAX_DEPTH = 2  # selectors after the root


@dataclass(frozen=True)
class AV:
    kind: str = UNKN
    ident: frozenset = frozenset()  # paths this value may BE
    mem: frozenset = frozenset()  # {(path, cert)}: ndarray memory possibly shared
    share: frozenset = frozenset()  # paths whose attribute objects are shared (shallow copy)
    elem: "AV | None" = None
    types: frozenset = frozenset()  # class qualnames (upper bounds)
    attrs: tuple = ()  # ((name, AV), ...) known attributes of a locally built object
    const: object = None  # python constant for IMM values / target name for FUNC and CLS

    # ------------------------------------------------------------------ helpers
    def attr(self, name: str) -> "AV | None":
        for k, v in self.attrs:
            if k == name:
                return v
        return None

    def with_attr(self, name: str, v: "AV") -> "AV":
        rest = tuple((k, x) for k, x in self.attrs if k != name)
        return replace(self, attrs=rest + ((name, v),))

    def mem_dict(self) -> dict:
        d: dict = {}
        for p, c in self.mem:
            d[p] = max(c, d.get(p, 0))
        return d

    @property
    def is_fresh(self) -> bool:
        return not self.ident and not self.mem and not self.share

    def protected_mem(self):
        return [(p, c) for p, c in self.mem if is_protected(p)]

    def short(self) -> str:
        m = ",".join(f"{p}:{CERT_NAME[c]}" for p, c in sorted(self.mem))
        return f"<{self.kind} id={sorted(self.ident)} mem=[{m}] share={sorted(self.share)}>"


def is_protected(path: str) -> bool:
    return path[:2] in ("P:", "G:", "C:")


def k_limit(path: str) -> str:
    """root + at most MAX_DEPTH selectors; deeper chains collapse onto their prefix."""
    parts = path.split(".")
    # root may itself contain dots (G:geometer.point.I): selectors are marked with a leading '/'
    root, sels = split_path(path)
    if len(sels) > MAX_DEPTH:
        sels = sels[:MAX_DEPTH]
    return root + "".join("/" + s for s in sels)


def split_path(path: str) -> tuple[str, list[str]]:
    parts = path.split("/")
    return parts[0], parts[1:]


def sub_path(path: str, sel: str) -> str:
    return k_limit(path + "/" + sel)


def fresh(kind: str = UNKN, types=frozenset(), elem: AV | None = None) -> AV:
    return AV(kind=kind, types=frozenset(types), elem=elem)


def imm(const=None) -> AV:
    return AV(kind=IMM, const=const)


NONE_AV = AV(kind=NONE)
BOTTOM_AV = AV(kind=BOTTOM)


def _join_mem(a: frozenset, b: frozenset, a_live: bool = True, b_live: bool = True) -> frozenset:
    da: dict = {}
    for p, c in a:
        da[p] = max(c, da.get(p, 0))
    db: dict = {}
    for p, c in b:
        db[p] = max(c, db.get(p, 0))
    out = {}
    for p in set(da) | set(db):
        if p in da and p in db:
            out[p] = max(da[p], db[p])
        else:
            c = da.get(p) or db.get(p)
            other_live = b_live if p in da else a_live
            out[p] = min(c, SOME) if other_live else c
    return frozenset(out.items())


def join(a: AV | None, b: AV | None, depth: int = 0) -> AV | None:
    if a is None:
        return b
    if b is None:
        return a
    if a is b or a == b:
        return a
    if a.kind == BOTTOM:
        return b
    if b.kind == BOTTOM:
        return a
    if a.kind == b.kind:
        kind = a.kind
    elif a.kind == NONE:
        kind = b.kind
    elif b.kind == NONE:
        kind = a.kind
    elif {a.kind, b.kind} <= {ND, ALIKE}:
        kind = ALIKE
    elif {a.kind, b.kind} <= {LIST, TUPLE}:
        kind = LIST
    else:
        kind = UNKN
    elem = join(a.elem, b.elem, depth + 1) if depth < 3 else (a.elem or b.elem)
    names = {k for k, _ in a.attrs} & {k for k, _ in b.attrs}
    attrs = tuple((k, join(a.attr(k), b.attr(k), depth + 1)) for k in sorted(names)) if depth < 3 else ()
    return AV(
        kind=kind,
        ident=a.ident | b.ident,
        mem=_join_mem(a.mem, b.mem, a.kind != NONE, b.kind != NONE),
        share=a.share | b.share,
        elem=elem,
        types=a.types | b.types,
        attrs=attrs,
        const=a.const if a.const == b.const else None,
    )


def join_all(avs) -> AV | None:
    out = None
    for v in avs:
        out = join(out, v)
    return out


def weaken(av: AV, cert: int) -> AV:
    """Memory certainty capped at ``cert`` (a may-alias operation)."""
    return replace(av, mem=frozenset((p, min(c, cert)) for p, c in av.mem))


def view_of(av: AV, cert: int = DEF, kind: str = ND) -> AV:
    """A new array object over (possibly) the same memory."""
    return AV(kind=kind, mem=frozenset((p, min(c, cert)) for p, c in av.mem))


def elem_of(av: AV) -> AV:
    """Element obtained by iterating / integer-indexing a value."""
    if av.kind in (ND, ALIKE):
        return view_of(av, DEF, ND)
    if av.elem is not None:
        return av.elem
    if av.kind == TENSOR:
        # element of a tensor collection: new object over the same memory
        return AV(kind=TENSOR, mem=av.mem)
    if av.ident and av.kind in CONTAINERS | {UNKN, OBJ}:
        ids = frozenset(sub_path(p, "[]") for p in av.ident)
        return AV(kind=UNKN, ident=ids, mem=frozenset((p, DEF) for p in ids))
    if av.mem:
        return AV(kind=UNKN, mem=weaken(av, UNK).mem)
    return AV(kind=UNKN)
