"""E6 - kind closure of collections, reconstruction, __apply__ results, np.empty buffers.

K1/K2/K5 serve C04, K3 serves C14 (and C06 for inverse/__pow__), K4 serves C06.
"""

from __future__ import annotations

import ast

from geolint.model import ClassInfo, FunctionInfo, Program, norm_stmt, walk_no_nested
from geolint.report import INFO, PROVEN, UNDECIDED, VIOLATION, Run


def collection_classes(prog: Program) -> list[ClassInfo]:
    tc = prog.cls("TensorCollection")
    return [c for c in prog.subclasses(tc, strict=True) if prog.is_concrete(c)]


def _first_base(prog: Program, c: ClassInfo) -> ClassInfo | None:
    """The kind class of a collection class: the first class of its MRO that is not itself a collection (PointTensor for
    PointCollection, also when private intermediate collection bases are inserted)."""
    tc = prog.find_cls("TensorCollection")
    if tc is None or not prog.is_subclass(c, tc):
        return prog.classes[c.bases[0]] if c.bases else None
    for k in prog.mro(c)[1:]:
        if not prog.is_subclass(k, tc):
            return k
    return None


def _element_class(prog: Program, c: ClassInfo) -> tuple[ClassInfo | None, ClassInfo | None, ast.AST | None]:
    """(class that sets it, element class, value node) following the MRO."""
    hit = prog.class_attr(c, "_element_class")
    if hit is None:
        return None, None, None
    owner, val = hit
    tgt = prog.resolve_expr_name(owner.module, val) if isinstance(val, (ast.Name, ast.Attribute)) else None
    return owner, prog.classes.get(tgt) if tgt else None, val


# ------------------------------------------------------------------------------------------------ K1
def rule_K1(run: Run, prog: Program) -> int:
    run.rule(
        "E6.K1",
        "every concrete collection class sets _element_class itself, and element class and collection share their first base "
        "(the XTensor family class): PlaneCollection's elements are Planes",
    )
    n = 0
    for c in collection_classes(prog):
        n += 1
        owner, elem, val = _element_class(prog, c)
        fam = _first_base(prog, c)
        if owner is not c and (elem is None or fam is None or not prog.is_subclass(elem, fam) or owner.name == "TensorCollection"):
            run.add("E6.K1", c.name, "_element_class", VIOLATION,
                    f"{c.name} does not set _element_class (it inherits {elem.name if elem else 'nothing'} from {owner.name if owner else '?'}): integer "
                    f"indexing / iteration / from_tensor yield {elem.name if elem else 'the base default'} objects", c.loc)
            continue
        loc = f"{(owner or c).module.rel}:{val.lineno}"
        if elem is None:
            run.add("E6.K1", c.name, "_element_class", UNDECIDED, "_element_class is not a plain class reference", loc)
            continue
        if fam is None or not prog.is_subclass(elem, fam):
            run.add("E6.K1", c.name, f"_element_class = {elem.name}", VIOLATION,
                    f"{c.name}._element_class is {elem.name}, which is not a {fam.name if fam else '?'}: elements of the collection "
                    f"are returned as a different kind of object", loc)
            continue
        if prog.is_subclass(elem, prog.cls("TensorCollection")):
            run.add("E6.K1", c.name, f"_element_class = {elem.name}", VIOLATION,
                    f"{c.name}._element_class is itself a collection class", loc)
            continue
        # generic argument: information only (no runtime effect)
        gen = [a for b, a in c.generic_args.items()]
        if gen and gen[0] and gen[0][0] != elem.name:
            run.add("E6.K1", c.name, f"generic argument {gen[0][0]}", INFO,
                    f"generic argument {gen[0][0]} differs from _element_class {elem.name} (typing only)", c.loc)
        run.add("E6.K1", c.name, f"_element_class = {elem.name}", PROVEN, f"element class {elem.name} is a {fam.name}", loc)
    return n


# ------------------------------------------------------------------------------------------------ K2
def ctor_param_attrs(prog: Program, c: ClassInfo) -> dict[str, ClassInfo]:
    """Attributes assigned in an __init__ of the MRO from a parameter that has a default: {attr: defining class}."""
    out: dict[str, ClassInfo] = {}
    for k in prog.mro(c):
        init = k.methods.get("__init__")
        if init is None:
            continue
        a = init.node.args
        pos = list(a.posonlyargs) + list(a.args)
        defaults = {p.arg for p in pos[len(pos) - len(a.defaults):]} if a.defaults else set()
        defaults |= {p.arg for p, d in zip(a.kwonlyargs, a.kw_defaults) if d is not None}
        selfn = pos[0].arg if pos else "self"
        for st in walk_no_nested(init.node):
            if (isinstance(st, ast.Assign) and len(st.targets) == 1 and isinstance(st.targets[0], ast.Attribute)
                    and isinstance(st.targets[0].value, ast.Name) and st.targets[0].value.id == selfn
                    and isinstance(st.value, ast.Name) and st.value.id in defaults and st.value.id == st.targets[0].attr):
                out.setdefault(st.targets[0].attr, k)
    return out


def _attr_fixed_by_ctor_chain(prog: Program, target: ClassInfo, attr: str, definer: ClassInfo) -> bool:
    """Some __init__ between ``target`` and ``definer`` (exclusive) passes attr=<constant> upwards."""
    for k in prog.mro(target):
        if k is definer:
            return False
        init = k.methods.get("__init__")
        if init is None:
            continue
        for node in walk_no_nested(init.node):
            if isinstance(node, ast.Call) and isinstance(node.func, ast.Attribute) and node.func.attr == "__init__":
                for kw in node.keywords:
                    if kw.arg == attr and isinstance(kw.value, ast.Constant):
                        return True
    return False


REWRAP_METHODS = {"from_tensor", "from_array"}


def _rewrap_calls(prog: Program, fn: FunctionInfo, depth: int = 0) -> list[tuple[ast.Call, ClassInfo, FunctionInfo]]:
    """Calls in return position that build a package tensor object: K(...), K.from_tensor(...), K.from_array(...),
    self._element_class(...) is excluded (generic); helper methods of the same class are followed once."""
    out = []
    for r in walk_no_nested(fn.node):
        if not isinstance(r, ast.Return) or r.value is None:
            continue
        v = r.value
        if not isinstance(v, ast.Call):
            continue
        f = v.func
        k = None
        if isinstance(f, ast.Attribute) and f.attr in REWRAP_METHODS:
            t = prog.resolve_expr_name(fn.module, f.value, fn)
            k = prog.classes.get(t) if t else None
        elif isinstance(f, (ast.Name, ast.Attribute)):
            t = prog.resolve_expr_name(fn.module, f, fn)
            k = prog.classes.get(t) if t else None
            if k is None and isinstance(f, ast.Attribute) and isinstance(f.value, ast.Name) and depth < 2 and fn.cls is not None:
                # helper: self._cast_polytope(result, ...)
                helper = prog.lookup(fn.cls, f.attr)
                if helper is not None and helper is not fn:
                    out += _rewrap_calls(prog, helper, depth + 1)
                    continue
        if k is not None:
            out.append((v, k, fn))
    return out


def rule_K2(run: Run, prog: Program) -> int:
    run.rule(
        "E6.K2",
        "for every concrete collection class the __getitem__ found by MRO re-wraps its result into the class's own family "
        "(constructor / from_tensor / from_array, directly or through a helper) and passes on every constructor-parameter "
        "attribute of the kind (e.g. is_dual); the generic TensorCollection fallback loses both; __iter__ goes through self[i]",
    )
    tc = prog.cls("TensorCollection")
    n = 0
    for c in collection_classes(prog):
        owner, elem, _ = _element_class(prog, c)
        fam = _first_base(prog, c)
        if elem is None or fam is None:
            continue
        gi = prog.lookup(c, "__getitem__")
        n += 1
        if gi is None:
            run.add("E6.K2", c.name, "__getitem__", VIOLATION, f"{c.name} has no __getitem__", c.loc)
            continue
        attrs = ctor_param_attrs(prog, elem)
        if gi.cls is tc or not prog.is_subclass(gi.cls, prog.cls("Tensor")) or gi.cls.name == "Tensor":
            lost = [a for a, d in attrs.items() if not _attr_fixed_by_ctor_chain(prog, elem, a, d)]
            msg = (f"{c.name}[...] resolves to the generic {gi.short}: sub-collections (slices, masks) come back as plain "
                   f"{gi.cls.name} objects")
            if lost:
                msg += f" and elements are rebuilt without {', '.join(lost)} (attribute reset to its default)"
            run.add("E6.K2", c.name, "__getitem__", VIOLATION, msg, gi.loc)
            continue
        calls = _rewrap_calls(prog, gi)
        fam_calls = [(v, k, f) for v, k, f in calls if prog.is_subclass(k, fam)]
        if not calls:
            run.add("E6.K2", c.name, "__getitem__", UNDECIDED, f"{gi.short}: no re-wrapping return recognised", gi.loc)
            continue
        if not fam_calls:
            names = sorted({k.name for _, k, _ in calls})
            run.add("E6.K2", c.name, "__getitem__", VIOLATION,
                    f"{gi.short} re-wraps into {', '.join(names)}: none of them is a {fam.name}; indexing a {c.name} changes the kind", gi.loc)
            continue
        # attributes
        verdict, msg = PROVEN, f"{gi.short} re-wraps into {', '.join(sorted({k.name for _, k, _ in fam_calls}))}"
        for a, definer in attrs.items():
            for v, k, f in fam_calls:
                if _attr_fixed_by_ctor_chain(prog, k, a, definer):
                    continue
                kw = {x.arg: x.value for x in v.keywords if x.arg}
                if a in kw and any(isinstance(x, ast.Attribute) and x.attr == a for x in ast.walk(kw[a])):
                    continue
                if any(x.arg is None for x in v.keywords):
                    verdict, msg = UNDECIDED, f"{f.short}: attribute {a} may travel through **kwargs"
                    continue
                verdict = VIOLATION
                msg = (f"{f.short} rebuilds the result with {ast.unparse(v)[:80]}: constructor parameter attribute `{a}` of "
                       f"{definer.name} is not passed on, elements lose it")
                break
            if verdict == VIOLATION:
                break
        run.add("E6.K2", c.name, "__getitem__", verdict, msg, gi.loc)
    # iteration
    it = prog.lookup(tc, "__iter__")
    if it is not None:
        n += 1
        selfn = it.params()[0].arg
        ys = [y for y in walk_no_nested(it.node) if isinstance(y, (ast.Yield, ast.YieldFrom))]
        verdict, msg = UNDECIDED, "yield expression not recognised"
        for y in ys:
            v = y.value
            if isinstance(v, ast.Subscript) and isinstance(v.value, ast.Name) and v.value.id == selfn:
                verdict, msg = PROVEN, "iteration yields self[i]"
            elif isinstance(v, ast.Subscript) and isinstance(v.value, ast.Attribute) and v.value.attr == "array":
                verdict, msg = VIOLATION, "iteration yields rows of the raw array instead of element objects"
        if not ys:
            verdict, msg = UNDECIDED, "no yield found"
        run.add("E6.K2", it.short, "__iter__", verdict, msg, it.loc)
    return n


def _ctor_validates_tensor_args(prog: Program) -> bool | None:
    """Tensor.__init__: is _validate_tensor() called on the path that copies another Tensor (before its early return)?"""
    init = prog.lookup(prog.cls("Tensor"), "__init__")
    if init is None:
        return None
    for st in walk_no_nested(init.node):
        if isinstance(st, ast.If) and "isinstance(args[0], Tensor)" in ast.unparse(st.test):
            has_return = any(isinstance(x, ast.Return) for x in st.body)
            validates = any(isinstance(x, ast.Expr) and "_validate_tensor" in ast.unparse(x) for x in st.body)
            if has_return:
                return validates
            return True
    # no separate path for tensor arguments: the common tail validates if it calls _validate_tensor at all
    return "_validate_tensor()" in ast.unparse(init.node)


def _classmethod_falls_back(prog: Program, name: str) -> bool:
    """TensorCollection.<name> (or a helper it calls) catches IncompatibleShapeError around cls(...) and falls back to the element class."""
    f = prog.lookup(prog.cls("TensorCollection"), name)
    if f is None:
        return False
    todo, seen = [f], set()
    while todo:
        g = todo.pop()
        if g.qualname in seen:
            continue
        seen.add(g.qualname)
        for st in walk_no_nested(g.node):
            if isinstance(st, ast.Try) and any(h.type is not None and "IncompatibleShapeError" in ast.unparse(h.type) for h in st.handlers):
                return True
            if isinstance(st, ast.With) and any("suppress" in ast.unparse(i.context_expr) and "IncompatibleShapeError" in ast.unparse(i.context_expr) for i in st.items):
                return True
            if isinstance(st, ast.Call) and isinstance(st.func, ast.Attribute) and isinstance(st.func.value, ast.Name) and st.func.value.id in ("cls", "self") \
                    and g.cls is not None and len(seen) < 6:
                h = prog.lookup(g.cls, st.func.attr)
                if h is not None:
                    todo.append(h)
    return False


def rule_K2e(run: Run, prog: Program) -> int:
    run.rule(
        "E6.K2e",
        "integer indexing can produce the ELEMENT class: from_array(x) reaches the element class only through the "
        "IncompatibleShapeError raised by constructor validation (which the Tensor-argument path of Tensor.__init__ must not skip); "
        "from_tensor(x) only when the element has no free index or it falls back on IncompatibleShapeError as well",
    )
    validates = _ctor_validates_tensor_args(prog)
    fb_array = _classmethod_falls_back(prog, "from_array")
    fb_tensor = _classmethod_falls_back(prog, "from_tensor")
    bound = prog.find_cls("BoundTensor")
    n = 0
    for c in collection_classes(prog):
        owner, elem, _ = _element_class(prog, c)
        fam = _first_base(prog, c)
        gi = prog.lookup(c, "__getitem__")
        if elem is None or fam is None or gi is None or gi.cls.name in ("Tensor", "TensorCollection"):
            continue
        calls = [(v, k, f) for v, k, f in _rewrap_calls(prog, gi) if prog.is_subclass(k, fam)]
        elem_bound = bound is not None and prog.is_subclass(elem, bound)
        verdicts = []
        direct_elem = any(prog.is_subclass(k, elem) for _v, k, _f in calls if not (isinstance(_v.func, ast.Attribute) and _v.func.attr in REWRAP_METHODS))
        for v, k, f in calls:
            if not (isinstance(v.func, ast.Attribute) and v.func.attr in REWRAP_METHODS):
                continue
            if not prog.is_subclass(k, prog.cls("TensorCollection")):
                continue
            n += 1
            how = v.func.attr
            arg = v.args[0] if v.args else None
            arg_is_tensor = True
            if isinstance(arg, ast.Attribute) and arg.attr == "array":
                arg_is_tensor = False
            if isinstance(arg, ast.Call):
                t = prog.resolve_expr_name(f.module, arg.func, f) or ""
                if t.startswith("numpy."):
                    arg_is_tensor = False
            if validates is None:
                verdicts.append((UNDECIDED, "Tensor.__init__ not found"))
            elif how == "from_array":
                if fb_array and (validates or not arg_is_tensor):
                    verdicts.append((PROVEN, f"{k.name}.from_array falls back to {elem.name} through constructor validation"))
                elif validates:
                    verdicts.append((UNDECIDED, f"{k.name}.from_array: no fall-back to the element class recognised"))
                else:
                    verdicts.append((VIOLATION,
                                     f"{f.short} re-wraps with {k.name}.from_array(<tensor>): the fall-back to {elem.name} needs the "
                                     f"IncompatibleShapeError of constructor validation, but Tensor.__init__ returns before _validate_tensor() "
                                     f"when its argument is a Tensor - {c.name}[i] is a {k.name} without free index, not a {elem.name}"))
            else:
                if elem_bound or (fb_tensor and validates):
                    verdicts.append((PROVEN, f"{k.name}.from_tensor selects {elem.name} for a single element"))
                elif validates:
                    verdicts.append((UNDECIDED, f"{k.name}.from_tensor: no fall-back to the element class recognised"))
                else:
                    verdicts.append((VIOLATION,
                                     f"{f.short} re-wraps with {k.name}.from_tensor(<tensor>): a single {elem.name} still has free (vertex) "
                                     f"indices, so from_tensor builds a {k.name}; its shape validation is skipped for Tensor arguments - "
                                     f"{c.name}[i] and iteration yield {k.name} objects, not {elem.name}"))
        if not verdicts:
            continue
        worst = max(verdicts, key=lambda x: {VIOLATION: 3, UNDECIDED: 2, PROVEN: 1}[x[0]])
        run.add("E6.K2e", c.name, "element class of c[i]", worst[0], worst[1], gi.loc)
    return n


# ------------------------------------------------------------------------------------------------ K3
NDARRAY_PARAMS = {"dtype", "copy", "order", "subok", "ndmin", "like"}


def _is_type_self_call(node: ast.Call, selfn: str) -> bool:
    f = node.func
    if isinstance(f, ast.Call) and isinstance(f.func, ast.Name) and f.func.id == "type" and len(f.args) == 1:
        return isinstance(f.args[0], ast.Name) and f.args[0].id == selfn
    if isinstance(f, ast.Attribute) and f.attr == "__class__" and isinstance(f.value, ast.Name) and f.value.id == selfn:
        return True
    return False


def _expr_kind(prog: Program, fn: FunctionInfo, e: ast.AST, env: dict[str, ast.AST], depth: int = 0) -> str:
    """'ndarray' | 'tensor' | 'unknown' for a constructor argument."""
    if isinstance(e, ast.Name) and e.id in env and depth < 3:
        return _expr_kind(prog, fn, env[e.id], env, depth + 1)
    if isinstance(e, ast.Attribute) and e.attr == "array":
        return "ndarray"
    if isinstance(e, ast.Call):
        f = e.func
        if isinstance(f, ast.Attribute) and isinstance(f.value, ast.Call) and isinstance(f.value.func, ast.Name) and f.value.func.id == "super":
            return "tensor" if f.attr.startswith("__") else "unknown"
        t = prog.resolve_expr_name(fn.module, f, fn)
        if t and (t.startswith("numpy.") or t.startswith("np.")):
            return "ndarray"
        if t in prog.functions:
            ret = prog.functions[t].node.returns
            src = ast.unparse(ret) if ret is not None else ""
            if "NDArray" in src or "ndarray" in src:
                return "ndarray"
            if prog.annotation_classes(prog.functions[t].module, ret):
                return "tensor"
        if t in prog.classes:
            return "tensor"
    if isinstance(e, ast.BinOp):
        k1, k2 = _expr_kind(prog, fn, e.left, env, depth + 1), _expr_kind(prog, fn, e.right, env, depth + 1)
        if "ndarray" in (k1, k2):
            return "ndarray"
    return "unknown"


def _kw_accepted(prog: Program, s: ClassInfo, kw: str) -> bool | None:
    """Follow **kwargs up the __init__ chain of class s. None = cannot tell."""
    mro = prog.mro(s)
    i = 0
    while i < len(mro):
        init = mro[i].methods.get("__init__")
        if init is None:
            i += 1
            continue
        a = init.node.args
        names = {p.arg for p in list(a.posonlyargs) + list(a.args) + list(a.kwonlyargs)}
        if kw in names:
            return True
        if a.kwarg is None:
            return False
        if mro[i].name == "Tensor":
            return kw in NDARRAY_PARAMS
        # does it forward **kwargs to super().__init__ ?
        fwd = False
        for node in walk_no_nested(init.node):
            if isinstance(node, ast.Call) and isinstance(node.func, ast.Attribute) and node.func.attr == "__init__":
                if any(k.arg is None for k in node.keywords):
                    fwd = True
        if not fwd:
            return None
        i += 1
    return None


def _class_locals(fn: FunctionInfo, selfn: str) -> set[str]:
    """Locals initialised with type(self) / self.__class__."""
    out = set()
    for st in walk_no_nested(fn.node):
        if isinstance(st, ast.Assign) and len(st.targets) == 1 and isinstance(st.targets[0], ast.Name):
            v = st.value
            if (isinstance(v, ast.Call) and isinstance(v.func, ast.Name) and v.func.id == "type" and len(v.args) == 1
                    and isinstance(v.args[0], ast.Name) and v.args[0].id == selfn):
                out.add(st.targets[0].id)
            if isinstance(v, ast.Attribute) and v.attr == "__class__" and isinstance(v.value, ast.Name) and v.value.id == selfn:
                out.add(st.targets[0].id)
    return out


def _eval_class_local(prog: Program, fn: FunctionInfo, name: str, start: ClassInfo) -> tuple[ClassInfo | None, str]:
    """Value of a class-valued local for an instance of ``start``. Recognised re-assignments:
    ``while <name>.__init__ is not K.__init__: <name> = <name>.__base__``. A leading '!' in the reason marks a definite failure."""
    cur = start
    for st in walk_no_nested(fn.node):
        if isinstance(st, ast.While):
            assigns = [x for x in st.body if isinstance(x, ast.Assign)]
            touches = any(isinstance(t, ast.Name) and t.id == name for a in assigns for t in a.targets)
            if not touches:
                continue
            t = st.test
            ok_form = (
                isinstance(t, ast.Compare) and len(t.ops) == 1 and isinstance(t.ops[0], ast.IsNot)
                and isinstance(t.left, ast.Attribute) and isinstance(t.left.value, ast.Name) and t.left.value.id == name
                and isinstance(t.comparators[0], ast.Attribute) and t.comparators[0].attr == t.left.attr
                and len(assigns) == 1 and isinstance(assigns[0].value, ast.Attribute) and assigns[0].value.attr == "__base__"
                and isinstance(assigns[0].value.value, ast.Name) and assigns[0].value.value.id == name
            )
            if not ok_form:
                return None, "class-valued local is re-assigned in an unrecognised loop"
            ktgt = prog.resolve_expr_name(fn.module, t.comparators[0].value, fn)
            k = prog.classes.get(ktgt) if ktgt else None
            if k is None:
                return None, "loop bound is not a package class"
            want = prog.lookup(k, t.left.attr)
            for _ in range(30):
                if prog.lookup(cur, t.left.attr) is want:
                    break
                if not cur.bases:
                    return None, f"!walking __base__ from {start.name} never reaches a class whose {t.left.attr} is {k.name}.{t.left.attr}"
                cur = prog.classes[cur.bases[0]]
        elif isinstance(st, ast.Assign) and any(isinstance(t, ast.Name) and t.id == name for t in st.targets):
            v = st.value
            is_init = (isinstance(v, ast.Call) and getattr(v.func, "id", "") == "type") or (isinstance(v, ast.Attribute) and v.attr == "__class__")
            in_loop = False
            if not is_init:
                # assignments inside recognised while loops are handled above
                for w in walk_no_nested(fn.node):
                    if isinstance(w, ast.While) and st in w.body:
                        in_loop = True
                if not in_loop:
                    return None, "class-valued local is re-assigned in an unrecognised way"
    return cur, ""


def rule_K3(run: Run, prog: Program, only: set[str] | None = None, family: ClassInfo | None = None) -> int:
    run.rule(
        "E6.K3",
        "a reconstruction type(self)(a0, ..., kw=...) in a method of class K must be acceptable to the __init__ of every "
        "concrete subclass that inherits the method: positional parameters of compatible kind, keywords accepted",
    )
    from geolint.dunder import _single_assign_env

    n = 0
    for fn in prog.package_functions():
        if fn.cls is None or fn.parent is not None or fn.is_staticmethod or fn.is_classmethod:
            continue
        ps = fn.params()
        if not ps:
            continue
        selfn = ps[0].arg
        env = _single_assign_env(fn)
        class_locals = _class_locals(fn, selfn)
        for node in walk_no_nested(fn.node):
            if not isinstance(node, ast.Call):
                continue
            via_local = isinstance(node.func, ast.Name) and node.func.id in class_locals
            if not (_is_type_self_call(node, selfn) or via_local):
                continue
            if only is not None and fn.name not in only:
                continue
            if family is not None and not prog.is_subclass(fn.cls, family):
                continue
            inheritors = [s for s in prog.concrete_subclasses(fn.cls) if prog.lookup(s, fn.name) is fn]
            stmt = norm_stmt(node)
            loc = f"{fn.module.rel}:{node.lineno}"
            bad: list[str] = []
            undec: list[str] = []
            for s0 in inheritors:
                n += 1
                s = s0
                if via_local:
                    s, why = _eval_class_local(prog, fn, node.func.id, s0)
                    if s is None:
                        (bad if why.startswith("!") else undec).append(f"{s0.name}: {why.lstrip('!')}")
                        continue
                init = prog.lookup(s, "__init__")
                if init is None:
                    continue
                a = init.node.args
                pos = (list(a.posonlyargs) + list(a.args))[1:]
                for i, arg in enumerate(node.args):
                    if isinstance(arg, ast.Starred):
                        break
                    if i >= len(pos):
                        if a.vararg is None:
                            bad.append(f"{s.name}.__init__ takes {len(pos)} positional argument(s), {len(node.args)} given")
                        break
                    p = pos[i]
                    want = prog.annotation_classes(init.module, p.annotation, init)
                    src = ast.unparse(p.annotation) if p.annotation is not None else ""
                    accepts_array = ("ArrayLike" in src) or ("ndarray" in src) or ("NDArray" in src) or not src
                    kind = _expr_kind(prog, fn, arg, env)
                    if want and not accepts_array:
                        if kind == "ndarray":
                            bad.append(f"{s.name}.__init__({p.arg}: {src}) receives an ndarray")
                        elif kind == "tensor":
                            pass
                        else:
                            undec.append(f"{s.name}.__init__({p.arg}: {src}) receives `{ast.unparse(arg)[:40]}` of unknown kind")
                for kw in node.keywords:
                    if kw.arg is None:
                        continue
                    acc = _kw_accepted(prog, s, kw.arg)
                    if acc is False:
                        bad.append(f"{s.name}.__init__ does not accept keyword `{kw.arg}`")
                    elif acc is None:
                        undec.append(f"{s.name}.__init__: keyword `{kw.arg}` not resolved")
            if bad:
                run.add("E6.K3", fn.short, stmt, VIOLATION,
                        f"{fn.short} rebuilds with {stmt[:70]}; incompatible with inheriting classes: " + "; ".join(bad[:6]),
                        loc, {"inheritors": [s.name for s in inheritors], "incompatible": bad})
            elif undec:
                run.add("E6.K3", fn.short, stmt, UNDECIDED, "; ".join(undec[:4]), loc)
            else:
                for s0 in inheritors:
                    eff = _eval_class_local(prog, fn, node.func.id, s0)[0] if via_local else s0
                    run.add("E6.K3", fn.short, f"{stmt[:90]} @ {s0.name}", PROVEN,
                            f"for a {s0.name} the call constructs a {eff.name}, whose __init__ accepts the arguments", loc)
    return n


# ------------------------------------------------------------------------------------------------ K4
MEMO_ATTRS: set = set()


def init_only_methods(prog: Program) -> set[str]:
    """Names of private methods that only run during construction: every call site `x.m(...)` in the package sits in
    __init__/__new__ or in another such method. (Name based: a helper name shared by two classes is judged jointly.)"""
    callers: dict[str, set[str]] = {}
    for fn in prog.package_functions():
        for call in walk_no_nested(fn.node):
            if isinstance(call, ast.Call) and isinstance(call.func, ast.Attribute):
                callers.setdefault(call.func.attr, set()).add(fn.name)
            elif isinstance(call, ast.Call) and isinstance(call.func, ast.Name):
                callers.setdefault(call.func.id, set()).add(fn.name)
    cand = {n for n in callers if n.startswith("_") and not n.startswith("__")}
    ctor = {"__init__", "__new__"}
    changed = True
    only = set(cand)
    while changed:
        changed = False
        for n in sorted(only):
            if not all(c in ctor or c in only for c in callers[n]) or callers[n] == {n}:
                only.discard(n)
                changed = True
    return only


def _self_assigned_attrs(f: FunctionInfo):
    if not f.params():
        return
    selfn = f.params()[0].arg
    for st in walk_no_nested(f.node):
        tg, val = [], None
        if isinstance(st, ast.Assign):
            tg, val = st.targets, st.value
        elif isinstance(st, ast.AnnAssign) and st.value is not None:
            tg, val = [st.target], st.value
        for t in tg:
            for t2 in (t.elts if isinstance(t, (ast.Tuple, ast.List)) else [t]):
                if isinstance(t2, ast.Attribute) and isinstance(t2.value, ast.Name) and t2.value.id == selfn:
                    yield t2.attr, st, val, selfn


def derived_cache_attrs(prog: Program) -> list[tuple[ClassInfo, str]]:
    """(class, attr): attr is annotated at class level with a package tensor class and assigned during construction of that
    class (in __init__ or a helper that only runs from it); plus memoised attributes (cached_property, or stored on self by
    a method that can run after construction, with a value computed from self)."""
    out = []
    MEMO_ATTRS.clear()
    tensor = prog.cls("Tensor")
    init_only = init_only_methods(prog)
    for c in prog.classes.values():
        ctors = [f for n, f in c.methods.items() if n == "__init__" or n in init_only]
        if "__init__" not in c.methods:
            continue
        for a, ann in c.annotations.items():
            ks = prog.annotation_classes(c.module, ann)
            if not ks or not all(prog.is_subclass(k, tensor) for k in ks):
                continue
            if any(attr == a for f in ctors for attr, _st, _v, _s in _self_assigned_attrs(f)):
                out.append((c, a))
    # memoised properties store their value in the instance __dict__, which Tensor.copy() shares with every shallow copy
    for c in prog.classes.values():
        if not prog.is_subclass(c, tensor):
            continue
        for name, f in c.methods.items():
            if any(d in ("cached_property",) for d in f.decorators):
                out.append((c, name))
                MEMO_ATTRS.add((c.qualname, name))
    for c in prog.classes.values():
        if not prog.is_subclass(c, tensor):
            continue
        for name, f in c.methods.items():
            if name in ("__init__", "__new__") or name in init_only or not f.params() or f.is_staticmethod or f.is_classmethod:
                continue
            if name.startswith("_") and not name.startswith("__") and not _called_somewhere(prog, name):
                continue  # dead private helper
            if _changes_coordinates(f):
                continue  # an updater re-deriving state together with the coordinates is not a memo
            if not any(isinstance(r, ast.Return) and r.value is not None and not (isinstance(r.value, ast.Constant) and r.value.value is None)
                       for r in walk_no_nested(f.node)):
                continue  # a procedure (refresh hook), not a query that remembers its answer
            for attr, _st, val, selfn in _self_assigned_attrs(f):
                if attr == "array" or val is None:
                    continue
                if not any(isinstance(x, ast.Name) and x.id == selfn for x in ast.walk(val)):
                    continue  # a plain setter: the value does not depend on the object's coordinates
                if isinstance(getattr(prog.lookup(c, attr), "node", None), ast.FunctionDef) and prog.lookup(c, attr).is_property:
                    continue  # property setter
                out.append((c, attr))
                MEMO_ATTRS.add((c.qualname, attr))
    uniq = {(c.qualname, a): (c, a) for c, a in out}
    return [uniq[k] for k in sorted(uniq)]


def _called_somewhere(prog: Program, name: str) -> bool:
    cache = getattr(prog, "_called_names", None)
    if cache is None:
        cache = set()
        for fn in prog.package_functions():
            for call in walk_no_nested(fn.node):
                if isinstance(call, ast.Call):
                    f = call.func
                    cache.add(f.attr if isinstance(f, ast.Attribute) else getattr(f, "id", ""))
        prog._called_names = cache
    return name in cache


def _coordinate_stores(f: FunctionInfo):
    """(object name, statement, how) for every store that changes the coordinates of an object: X.array = ..., X.array[..] = ..."""
    for st in walk_no_nested(f.node):
        tg = []
        if isinstance(st, ast.Assign):
            tg = st.targets
        elif isinstance(st, (ast.AugAssign, ast.AnnAssign)):
            tg = [st.target]
        for t in tg:
            for t2 in (t.elts if isinstance(t, (ast.Tuple, ast.List)) else [t]):
                if isinstance(t2, ast.Attribute) and t2.attr == "array" and isinstance(t2.value, ast.Name):
                    yield t2.value.id, st, "rebinds"
                elif isinstance(t2, ast.Subscript) and isinstance(t2.value, ast.Attribute) and t2.value.attr == "array" \
                        and isinstance(t2.value.value, ast.Name):
                    yield t2.value.value.id, st, "writes into"


def _changes_coordinates(f: FunctionInfo) -> bool:
    selfn = f.params()[0].arg if f.params() else None
    return any(x == selfn for x, _st, _h in _coordinate_stores(f))


def _resets(prog: Program, s: ClassInfo | None, f: FunctionInfo, obj: str, a: str, depth: int = 0) -> bool:
    """f re-assigns / deletes attribute a of the object named obj (directly, or through a method called on it or with it)."""
    selfn = f.params()[0].arg if f.params() else None
    for st in walk_no_nested(f.node):
        if isinstance(st, (ast.Assign, ast.AnnAssign, ast.AugAssign)):
            tg = st.targets if isinstance(st, ast.Assign) else [st.target]
            for t in tg:
                for t2 in (t.elts if isinstance(t, (ast.Tuple, ast.List)) else [t]):
                    if isinstance(t2, ast.Attribute) and t2.attr == a and isinstance(t2.value, ast.Name) and t2.value.id == obj:
                        return True
        if isinstance(st, ast.Delete):
            for t in st.targets:
                if isinstance(t, ast.Attribute) and t.attr == a and isinstance(t.value, ast.Name) and t.value.id == obj:
                    return True
        if isinstance(st, ast.Call):
            fx = st.func
            consts = [x.value for x in st.args if isinstance(x, ast.Constant)]
            if isinstance(fx, ast.Name) and fx.id == "delattr" and st.args and isinstance(st.args[0], ast.Name) and st.args[0].id == obj and a in consts:
                return True
            if isinstance(fx, ast.Name) and fx.id == "setattr" and st.args and isinstance(st.args[0], ast.Name) and st.args[0].id == obj and a in consts:
                return True
            if isinstance(fx, ast.Attribute) and fx.attr in ("pop", "clear", "__delitem__"):
                base = fx.value
                is_dict = (isinstance(base, ast.Attribute) and base.attr == "__dict__" and isinstance(base.value, ast.Name) and base.value.id == obj) or \
                          (isinstance(base, ast.Call) and getattr(base.func, "id", "") == "vars" and base.args and isinstance(base.args[0], ast.Name)
                           and base.args[0].id == obj)
                if is_dict and (fx.attr == "clear" or a in consts):
                    return True
            if depth < 2 and isinstance(fx, ast.Attribute) and isinstance(fx.value, ast.Name) and s is not None:
                m2 = prog.lookup(s, fx.attr)
                if m2 is not None and m2 is not f and m2.params():
                    if fx.value.id == obj and _resets(prog, s, m2, m2.params()[0].arg, a, depth + 1):
                        return True
                    if fx.value.id == selfn:
                        hps = [p.arg for p in m2.params()][1:]
                        for i, x in enumerate(st.args):
                            if i < len(hps) and isinstance(x, ast.Name) and x.id == obj and _resets(prog, s, m2, hps[i], a, depth + 1):
                                return True
    return False


def rule_K4m(run: Run, prog: Program) -> int:
    run.rule(
        "E6.K4m",
        "a value memoised on the instance (cached_property, or an attribute a query stores on self from the coordinates) is "
        "reset by every method that changes the coordinates of the receiver or of a self.copy() of it (Tensor.copy() hands the "
        "instance __dict__, memo included, to the copy)",
    )
    from geolint.dunder import _single_assign_env

    tensor = prog.cls("Tensor")
    memos = [(k, a) for k, a in derived_cache_attrs(prog) if (k.qualname, a) in MEMO_ATTRS]
    init_only = init_only_methods(prog)
    n = 0
    for k, a in memos:
        for f in prog.package_functions():
            if f.cls is None or not prog.is_subclass(f.cls, tensor) or f.name in ("__init__", "__new__", "__apply__") or f.name in init_only:
                continue
            both = [c for c in prog.concrete_subclasses(k) if prog.is_subclass(c, f.cls) and prog.lookup(c, f.name) is f]
            if not both:
                continue  # no concrete class both carries the memo and resolves this method
            if not f.params() or f.is_staticmethod or f.is_classmethod:
                continue
            selfn = f.params()[0].arg
            env = _single_assign_env(f)
            for obj, st, how in _coordinate_stores(f):
                carries = obj == selfn
                if not carries and obj in env:
                    v = env[obj]
                    if isinstance(v, ast.Call) and isinstance(v.func, ast.Attribute) and v.func.attr in ("copy", "__copy__") and (
                            (isinstance(v.func.value, ast.Name) and v.func.value.id == selfn)
                            or (isinstance(v.func.value, ast.Call) and getattr(v.func.value.func, "id", "") == "super")):
                        carries = True
                    elif isinstance(v, ast.Call) and getattr(v.func, "attr", getattr(v.func, "id", "")) == "copy" and v.args \
                            and isinstance(v.args[0], ast.Name) and v.args[0].id == selfn:
                        carries = True
                if not carries:
                    continue
                n += 1
                recv = both[0]
                if _resets(prog, recv, f, obj, a):
                    run.add("E6.K4m", f.short, f"{norm_stmt(st)[:70]} / {k.name}.{a}", PROVEN,
                            f"{f.short} {how} the coordinates of `{obj}` and resets the memoised `{a}` on it", f"{f.module.rel}:{st.lineno}")
                else:
                    run.add("E6.K4m", f.short, f"{norm_stmt(st)[:70]} / {k.name}.{a}", VIOLATION,
                            f"{f.short} {how} the coordinates of `{obj}` ({'the receiver' if obj == selfn else 'a shallow copy of the receiver'}) "
                            f"but the memoised {k.name}.{a} stays in its instance __dict__: once `{a}` has been computed, every later "
                            f"query that uses it answers for the OLD coordinates",
                            f"{f.module.rel}:{st.lineno}")
    return n


def _returned_names(fn: FunctionInfo) -> set[str]:
    return {r.value.id for r in walk_no_nested(fn.node) if isinstance(r, ast.Return) and isinstance(r.value, ast.Name)}


def rule_K4(run: Run, prog: Program) -> int:
    run.rule(
        "E6.K4",
        "every __apply__ returns a self.copy()/super().__apply__-derived object or a constructor of the receiver's family; a "
        "class whose __init__ derives a cached tensor attribute (_line, _plane) from its own vertices re-assigns that "
        "attribute on the result of its resolved __apply__",
    )
    tensor = prog.cls("Tensor")
    n = 0
    # (a) result kind of each implementation
    for fn in prog.package_functions():
        if fn.name != "__apply__" or fn.cls is None or not prog.is_subclass(fn.cls, tensor):
            continue
        n += 1
        decl = fn
        fn = prog.body_of(fn)  # the code that runs, when __apply__ only hands its parameters on
        selfn = fn.params()[0].arg
        rets = [r for r in walk_no_nested(fn.node) if isinstance(r, ast.Return) and r.value is not None]
        from geolint.dunder import _single_assign_env

        env = _single_assign_env(fn)
        verdicts = []
        for r in rets:
            v = r.value
            if isinstance(v, ast.Name) and v.id in env:
                v = env[v.id]
            src = ast.unparse(v)
            if isinstance(v, ast.Call):
                f = v.func
                if isinstance(f, ast.Attribute) and f.attr == "copy" and isinstance(f.value, ast.Name) and f.value.id == selfn:
                    verdicts.append((PROVEN, "self.copy()"))
                    continue
                if isinstance(f, ast.Attribute) and f.attr == "__apply__" and isinstance(f.value, ast.Call) and getattr(f.value.func, "id", "") == "super":
                    verdicts.append((PROVEN, "super().__apply__"))
                    continue
                tgt = None
                if isinstance(f, ast.Attribute) and f.attr in REWRAP_METHODS:
                    tgt = prog.resolve_expr_name(fn.module, f.value, fn)
                else:
                    tgt = prog.resolve_expr_name(fn.module, f, fn)
                k = prog.classes.get(tgt) if tgt else None
                if k is not None:
                    fam = _first_base(prog, k) or k
                    if prog.is_subclass(k, fn.cls) or prog.is_subclass(fn.cls, fam) or prog.is_subclass(k, fam) and prog.is_subclass(fn.cls, fam):
                        verdicts.append((PROVEN, f"{k.name} constructor"))
                    else:
                        verdicts.append((VIOLATION, f"returns a {k.name}, which is not of the receiver's kind {fn.cls.name}"))
                    continue
                if _is_type_self_call(v, selfn):
                    verdicts.append((PROVEN, "type(self)(...)"))
                    continue
            if isinstance(v, ast.Name) and v.id == selfn:
                verdicts.append((VIOLATION, "returns the receiver itself (untransformed / aliased)"))
                continue
            verdicts.append((UNDECIDED, f"return expression `{src[:50]}` not recognised"))
        if not rets:
            verdicts.append((VIOLATION, "no value returned"))
        worst = max(verdicts, key=lambda x: {VIOLATION: 3, UNDECIDED: 2, PROVEN: 1}[x[0]])
        run.add("E6.K4", decl.short, "result kind", worst[0], "; ".join(m for _, m in verdicts), decl.loc)
    # (b) derived caches
    for k, a in derived_cache_attrs(prog):
        for s in prog.concrete_subclasses(k):
            n += 1
            ap = prog.lookup(s, "__apply__")
            if ap is None:
                continue
            # walk the super().__apply__ chain from the resolved implementation down to (and including) class k
            cur, ok, seen = ap, False, set()
            stale = None
            while cur is not None and cur.qualname not in seen:
                seen.add(cur.qualname)
                decl_cur = cur
                cur = prog.body_of(cur)
                rn = _returned_names(cur)
                cps = cur.params()
                cself = cps[0].arg if cps else "self"
                ctr = cps[1].arg if len(cps) > 1 else None
                # (function, names that denote the transformed result there, names that denote the transformation there)
                scopes = [(cur, set(rn), {ctr} if ctr else set())]
                for call in walk_no_nested(cur.node):  # hooks called on self with the result as an argument
                    if isinstance(call, ast.Call) and isinstance(call.func, ast.Attribute) and isinstance(call.func.value, ast.Name) \
                            and call.func.value.id == cself and any(isinstance(x, ast.Name) and x.id in rn for x in call.args):
                        hook = prog.lookup(s, call.func.attr)
                        if hook is None or hook is cur:
                            continue
                        hps = [p.arg for p in hook.params()][1:]
                        res_alias = {hps[i] for i, x in enumerate(call.args) if i < len(hps) and isinstance(x, ast.Name) and x.id in rn}
                        tr_alias = {hps[i] for i, x in enumerate(call.args) if i < len(hps) and isinstance(x, ast.Name) and x.id == ctr}
                        scopes.append((hook, res_alias, tr_alias))
                for call in walk_no_nested(cur.node):  # methods called ON the result: result._update_support(...)
                    if isinstance(call, ast.Call) and isinstance(call.func, ast.Attribute) and isinstance(call.func.value, ast.Name) \
                            and call.func.value.id in rn:
                        m2 = prog.lookup(s, call.func.attr)
                        if m2 is not None and m2 is not cur and m2.params():
                            tr_alias = {p.arg for p, x in zip(m2.params()[1:], call.args) if isinstance(x, ast.Name) and x.id == ctr}
                            scopes.append((m2, {m2.params()[0].arg}, tr_alias | {"__result_is_self__"}))
                for sf, res_names, tr_names in scopes:
                    sself = sf.params()[0].arg if sf.params() else "self"
                    for st in walk_no_nested(sf.node):
                        if isinstance(st, ast.Assign):
                            for t in st.targets:
                                if isinstance(t, ast.Attribute) and t.attr == a and isinstance(t.value, ast.Name) and t.value.id in res_names:
                                    ok = True
                                    in_slices = {id(y) for x in ast.walk(st.value) if isinstance(x, ast.Subscript) for y in ast.walk(x.slice)}
                                    used = {x.id for x in ast.walk(st.value) if isinstance(x, ast.Name) and id(x) not in in_slices}
                                    if "__result_is_self__" not in tr_names and sself in used and not (used & res_names) and not (used & tr_names):
                                        stale = (sf, st)
                if ok:
                    break
                calls_super = any(
                    isinstance(x, ast.Call) and isinstance(x.func, ast.Attribute) and x.func.attr == "__apply__"
                    and isinstance(x.func.value, ast.Call) and getattr(x.func.value.func, "id", "") == "super"
                    for x in walk_no_nested(cur.node))
                if not calls_super:
                    # a constructor-returning __apply__ recomputes the attribute in __init__
                    def _ctor(call: ast.Call) -> bool:
                        fx = call.func
                        if isinstance(fx, ast.Attribute) and fx.attr in REWRAP_METHODS:
                            fx = fx.value
                        return prog.classes.get(prog.resolve_expr_name(cur.module, fx, cur) or "") is not None or _is_type_self_call(call, cself)

                    rets_ = [r for r in walk_no_nested(cur.node) if isinstance(r, ast.Return) and r.value is not None]
                    if rets_ and all(isinstance(r.value, ast.Call) and _ctor(r.value) for r in rets_):
                        ok = True
                    break
                cur = prog.lookup_after(s, decl_cur.cls, "__apply__")
            memo = (k.qualname, a) in MEMO_ATTRS
            if ok and stale is not None:
                sf, sst = stale
                run.add("E6.K4", s.name, f"__apply__ moves {a}", VIOLATION,
                        f"{sf.short} re-assigns `{a}` on the transformed object from the UNTRANSFORMED receiver only (`{norm_stmt(sst)[:80]}` uses "
                        f"neither the result nor the transformation): the transformed {s.name} keeps the supporting {a.strip('_')} of the original",
                        f"{sf.module.rel}:{sst.lineno}")
            elif ok:
                run.add("E6.K4", s.name, f"__apply__ moves {a}", PROVEN, f"{ap.short} chain re-assigns {a} on the result", ap.loc)
            elif memo:
                run.add("E6.K4", s.name, f"__apply__ moves {a}", VIOLATION,
                        f"{k.name}.{a} is memoised on the instance (cached_property / attribute stored by a query): the value lives in the "
                        f"instance __dict__, which {ap.short} hands on to the transformed object through self.copy() without resetting it - "
                        f"after `{a}` was computed once, t * x keeps the {a} of the ORIGINAL x (stale answer to every later query that uses it)",
                        k.methods[a].loc if a in k.methods else k.loc)
            else:
                run.add("E6.K4", s.name, f"__apply__ moves {a}", VIOLATION,
                        f"{s.name}.__apply__ resolves to {ap.short}, which does not re-assign the cached `{a}` (derived from the vertices in "
                        f"{k.name}.__init__): a transformed {s.name} keeps the supporting {a.strip('_')} of the original", ap.loc)
    return n


# ------------------------------------------------------------------------------------------------ K5
def _contains_empty_call(e: ast.AST) -> bool:
    for x in ast.walk(e):
        if isinstance(x, ast.Call):
            f = x.func
            name = f.attr if isinstance(f, ast.Attribute) else getattr(f, "id", "")
            if name in ("empty", "empty_like"):
                return True
    return False


def _is_complement(a: ast.AST, b: ast.AST) -> bool:
    def inv(x):
        return isinstance(x, ast.UnaryOp) and isinstance(x.op, ast.Invert)

    if inv(a) and ast.dump(a.operand) == ast.dump(b):
        return True
    if inv(b) and ast.dump(b.operand) == ast.dump(a):
        return True
    return False


def rule_K5(run: Run, prog: Program) -> int:
    run.rule(
        "E6.K5",
        "a buffer allocated with np.empty/np.empty_like is completely written before it is returned: masked writes come in "
        "syntactically complementary pairs (m / ~m), or the whole buffer / both .real and .imag are written",
    )
    n = 0
    for fn in prog.package_functions():
        bufs: dict[str, ast.AST] = {}
        for st in walk_no_nested(fn.node):
            if isinstance(st, ast.Assign) and len(st.targets) == 1 and isinstance(st.targets[0], ast.Name) and _contains_empty_call(st.value):
                bufs[st.targets[0].id] = st
        for name, st in bufs.items():
            n += 1
            masks: list[ast.AST] = []
            full = False
            outs: set[str] = set()
            other_use = False
            for x in walk_no_nested(fn.node):
                if isinstance(x, (ast.Assign, ast.AugAssign)):
                    tgts = x.targets if isinstance(x, ast.Assign) else [x.target]
                    for t in tgts:
                        if isinstance(t, ast.Subscript) and isinstance(t.value, ast.Name) and t.value.id == name:
                            sl = t.slice
                            if isinstance(sl, ast.Slice) and sl.lower is None and sl.upper is None or (isinstance(sl, ast.Constant) and sl.value is Ellipsis):
                                full = True
                            else:
                                masks.append(sl)
                if isinstance(x, ast.Call):
                    for kw in x.keywords:
                        if kw.arg == "out":
                            v = kw.value
                            if isinstance(v, ast.Name) and v.id == name:
                                full = True
                            if isinstance(v, ast.Attribute) and isinstance(v.value, ast.Name) and v.value.id == name:
                                outs.add(v.attr)
            loc = f"{fn.module.rel}:{st.lineno}"
            stmt = norm_stmt(st)
            if {"real", "imag"} <= outs:
                full = True
            paired = any(_is_complement(a, b) for i, a in enumerate(masks) for b in masks[i + 1:])
            if full or paired:
                run.add("E6.K5", fn.short, stmt, PROVEN, "buffer is completely written (full write or complementary masks)", loc)
            elif not masks and not outs:
                run.add("E6.K5", fn.short, stmt, UNDECIDED, "no direct write into the np.empty buffer recognised", loc)
            elif len(masks) == 1 or (outs and len(outs) == 1):
                which = ast.unparse(masks[0]) if masks else f"out={name}.{next(iter(outs))}"
                run.add("E6.K5", fn.short, stmt, VIOLATION,
                        f"np.empty buffer `{name}` is written only through `{which}`; the remaining entries are returned uninitialised", loc)
            else:
                run.add("E6.K5", fn.short, stmt, UNDECIDED, "several masked writes that are not syntactic complements", loc)
    return n


# ------------------------------------------------------------------------------------------------ K6
def rule_K6(run: Run, prog: Program) -> int:
    run.rule(
        "E6.K6",
        "a whole-array fast path `if <test>: return <parameter unchanged>` must hold for EVERY element: `np.all(c)` / `not np.any(needs_work)`. "
        "The existential forms `np.any(c)` / `not np.all(needs_work)` return a collection unprocessed as soon as one element needs no work, so "
        "collections and single objects disagree",
    )
    from geolint.dunder import _single_assign_env
    from geolint.errors import _reduction_form

    n = 0
    for fn in prog.package_functions():
        params = set(fn.param_names())
        if fn.cls is not None and not fn.is_staticmethod and fn.params():
            params.discard(fn.params()[0].arg)
        env = None
        for node in walk_no_nested(fn.node):
            if not (isinstance(node, ast.If) and len(node.body) == 1 and isinstance(node.body[0], ast.Return)
                    and isinstance(node.body[0].value, ast.Name) and node.body[0].value.id in params):
                continue
            if env is None:
                env = _single_assign_env(fn)
            form = _reduction_form(node.test, env)
            if form is None:
                continue
            red, neg, _operand = form
            n += 1
            loc = f"{fn.module.rel}:{node.lineno}"
            label = norm_stmt(node)
            universal = (red == "all" and not neg) or (red == "any" and neg)
            if universal:
                run.add("E6.K6", fn.short, label, PROVEN, "fast path requires the condition for every element", loc)
            else:
                run.add("E6.K6", fn.short, label, VIOLATION,
                        f"`{label}` returns `{node.body[0].value.id}` unchanged as soon as ONE element needs no work: in a collection that mixes such "
                        f"elements with others the remaining elements are never processed", loc)
    return n


# ------------------------------------------------------------------------------------------------ K7: dtype of assembled buffers
WIDENING_ATTRS = {"normalized_array"}  # coordinates divided by the last one: floating whatever the dtype of the representative
WIDENING_CALLS = {"sqrt", "csqrt", "sin", "cos", "tan", "arcsin", "arccos", "arctan", "arctan2", "exp", "log", "mean", "average", "hypot", "norm", "inv", "solve", "dist", "angle",
                  "true_divide", "divide", "reciprocal"}
BUFFER_MAKERS = {"eye", "zeros", "ones", "empty", "full", "identity"}
LIKE_MAKERS = {"zeros_like", "ones_like", "empty_like", "full_like"}


def _tests_of(fn: FunctionInfo) -> list[str]:
    out = []
    for st in walk_no_nested(fn.node):
        if isinstance(st, ast.If):
            t = ast.unparse(st.test)
            if t not in out:
                out.append(t)
    return out


def _linearise(body, truth: dict[str, bool]) -> list[ast.stmt]:
    out = []
    for st in body:
        if isinstance(st, ast.If):
            arm = st.body if truth.get(ast.unparse(st.test), True) else st.orelse
            out += _linearise(arm, truth)
        elif isinstance(st, (ast.For, ast.While, ast.With)):
            out += _linearise(st.body, truth)
        elif isinstance(st, ast.Try):
            out += _linearise(st.body, truth)
        elif isinstance(st, (ast.Return, ast.Raise)):
            out.append(st)
            break
        else:
            out.append(st)
    return out


def _used_only_as_dtype(fn: FunctionInfo, param: str) -> bool:
    """every use of the parameter is as a dtype: inside a `dtype=` keyword, as the dtype positional of zeros/ones/empty/full, as an argument of
    np.promote_types / np.result_type / np.dtype, or in a test `param is None`"""
    ok_nodes: set[int] = set()
    for node in walk_no_nested(fn.node):
        if isinstance(node, ast.Call):
            nm = node.func.attr if isinstance(node.func, ast.Attribute) else getattr(node.func, "id", "")
            roots = [k.value for k in node.keywords if k.arg == "dtype"]
            if nm in ("zeros", "ones", "empty", "full") and len(node.args) >= 2:
                roots.append(node.args[-1] if nm != "full" or len(node.args) >= 3 else node.args[1])
            if nm in ("promote_types", "result_type", "dtype", "astype"):
                roots += list(node.args)
            for r in roots:
                for x in ast.walk(r):
                    ok_nodes.add(id(x))
        if isinstance(node, ast.Compare) and len(node.ops) == 1 and isinstance(node.ops[0], (ast.Is, ast.IsNot)) and isinstance(node.left, ast.Name) \
                and isinstance(node.comparators[0], ast.Constant) and node.comparators[0].value is None:
            ok_nodes.add(id(node.left))
    loads = [x for x in walk_no_nested(fn.node) if isinstance(x, ast.Name) and x.id == param and isinstance(x.ctx, ast.Load)]
    return bool(loads) and all(id(x) in ok_nodes for x in loads)


def _call_sites(prog: Program, fn: FunctionInfo) -> list:
    out = []
    for caller in prog.package_functions():
        for node in walk_no_nested(caller.node):
            if isinstance(node, ast.Call):
                f_ = node.func
                if (isinstance(f_, ast.Name) and f_.id == fn.name and fn.cls is None) or (isinstance(f_, ast.Attribute) and f_.attr == fn.name and fn.cls is not None):
                    out.append((caller, node))
    return out


def _arg_map(fn: FunctionInfo, call: ast.Call) -> dict:
    names = [p.arg for p in fn.params()]
    if fn.cls is not None and not fn.is_staticmethod and names:
        names = names[1:]
    out = {}
    for i, a in enumerate(call.args):
        if i < len(names) and not isinstance(a, ast.Starred):
            out[names[i]] = a
    for k in call.keywords:
        if k.arg is not None:
            out[k.arg] = k.value
    return out


def _flow_insensitive_deps(fn: FunctionInfo) -> dict:
    """name -> parameters it may depend on (closure over every assignment of the function)"""
    deps: dict[str, set[str]] = {p: {p} for p in fn.param_names()}
    for _ in range(6):
        changed = False
        for node in walk_no_nested(fn.node):
            targets, value = [], None
            if isinstance(node, ast.Assign):
                targets, value = node.targets, node.value
            elif isinstance(node, (ast.AugAssign, ast.AnnAssign)) and node.value is not None:
                targets, value = [node.target], node.value
            if value is None:
                continue
            d = set()
            for x in ast.walk(value):
                if isinstance(x, ast.Name):
                    d |= deps.get(x.id, set())
            for t in targets:
                for x in ast.walk(t):
                    if isinstance(x, ast.Name) and isinstance(x.ctx, ast.Store):
                        if not d <= deps.get(x.id, set()):
                            deps[x.id] = deps.get(x.id, set()) | d
                            changed = True
        if not changed:
            break
    return deps


def norm_stmt_of_call(call: ast.Call) -> str:
    return ast.unparse(call)[:100]


def _k7_analyse(prog: Program, fn: FunctionInfo, summaries: dict) -> tuple[dict, dict, dict] | None:
    """per-path def-use of buffer dtypes in one function: (findings, proven, call_findings) or None when the function builds no buffer and calls no
    summarised helper. summaries: helper name -> (FunctionInfo, dtype parameters, parameters whose data the helper stores)"""
    params = set(fn.param_names())
    bool_params = {p.arg for p in fn.params() if p.annotation is not None and "bool" in ast.unparse(p.annotation)}
    tests = _tests_of(fn)
    if len(tests) > 7:
        return None
    has = False
    for node in walk_no_nested(fn.node):
        if isinstance(node, ast.Call):
            nm = node.func.attr if isinstance(node.func, ast.Attribute) else getattr(node.func, "id", "")
            if (isinstance(node.func, ast.Attribute) and nm in BUFFER_MAKERS | LIKE_MAKERS) or nm in summaries:
                has = True
    if not has:
        return None
    findings: dict[str, tuple] = {}
    proven: dict[str, tuple] = {}
    call_findings: dict[str, tuple] = {}
    call_proven: dict[str, tuple] = {}
    wide_findings: dict[str, tuple] = {}
    wide_proven: dict[str, tuple] = {}
    first = fn.params()[0].arg if fn.cls is not None and not fn.is_staticmethod and fn.params() else ""
    for mask in range(1 << len(tests)):
        truth = {t: bool(mask >> i & 1) for i, t in enumerate(tests)}
        deps: dict[str, set[str]] = {p: {p} for p in params}  # name -> parameters it depends on
        bufs: dict[str, tuple[set[str], ast.stmt]] = {}
        wide: dict[str, set[str]] = {}  # name -> widening expressions (true division, normalisation, sqrt ...) its value went through
        buf_wide: dict[str, tuple[set[str], bool]] = {}  # buffer -> (widening expressions its dtype was computed after, dtype names a floating type)

        def tokens_of(e: ast.AST) -> set[str]:
            """the widening operations the dtype of e went through: their source text, so that `x.normalized_array` is the same token wherever it is written"""
            if isinstance(e, ast.Compare) or (isinstance(e, ast.UnaryOp) and isinstance(e.op, (ast.Invert, ast.Not))):
                return set()
            out_: set[str] = set()
            if isinstance(e, ast.Name):
                return set(wide.get(e.id, set()))
            if isinstance(e, ast.Attribute) and e.attr in WIDENING_ATTRS:
                out_.add(ast.unparse(e))
            elif isinstance(e, ast.BinOp) and isinstance(e.op, ast.Div):
                out_.add(ast.unparse(e))
            elif isinstance(e, ast.Call):
                nm_ = e.func.attr if isinstance(e.func, ast.Attribute) else getattr(e.func, "id", "")
                if nm_.startswith(("is", "logical_")) or nm_ in ("any", "all", "allclose", "array_equal", "nonzero", "argmax", "argmin", "argsort", "shape", "len"):
                    return set()
                if nm_ in WIDENING_CALLS:
                    out_.add(ast.unparse(e))
            if isinstance(e, ast.Subscript):
                return out_ | tokens_of(e.value)
            for ch in ast.iter_child_nodes(e):
                if isinstance(ch, ast.expr):
                    out_ |= tokens_of(ch)
                elif isinstance(ch, ast.keyword):
                    out_ |= tokens_of(ch.value)
            return out_
        for st in _linearise(fn.node.body, truth):
            def dep_of(e: ast.AST) -> set[str]:
                out: set[str] = set()
                for x in ast.walk(e):
                    if isinstance(x, ast.Name) and x.id in deps:
                        out |= deps[x.id]
                return out

            def dtype_deps(e: ast.AST) -> set[str]:
                """parameters that can widen the dtype of the value e: conditions, masks, indices and truth values do not"""
                if isinstance(e, ast.Compare) or (isinstance(e, ast.UnaryOp) and isinstance(e.op, (ast.Invert, ast.Not))):
                    return set()
                if isinstance(e, ast.Call):
                    f_ = e.func
                    nm_ = f_.attr if isinstance(f_, ast.Attribute) else getattr(f_, "id", "")
                    if nm_ == "where" and len(e.args) == 3:
                        return dtype_deps(e.args[1]) | dtype_deps(e.args[2])
                    if nm_.startswith(("is", "logical_")) or nm_ in ("any", "all", "allclose", "array_equal", "nonzero", "argmax", "argmin", "argsort"):
                        return set()
                if isinstance(e, ast.Subscript):
                    return dtype_deps(e.value)
                if isinstance(e, ast.Name):
                    return set(deps.get(e.id, set())) - bool_params
                out_: set[str] = set()
                for ch in ast.iter_child_nodes(e):
                    if isinstance(ch, ast.expr):
                        out_ |= dtype_deps(ch)
                    elif isinstance(ch, ast.keyword):
                        out_ |= dtype_deps(ch.value)
                return out_

            # calls of helpers that assemble a buffer with a dtype they are handed: judged here, with the dependences of this path
            if summaries:
                for c in ast.walk(st):
                    if isinstance(c, ast.Call):
                        nm = c.func.attr if isinstance(c.func, ast.Attribute) else getattr(c.func, "id", "")
                        if nm in summaries and summaries[nm][0] is not fn:
                            helper, dparams, stored = summaries[nm]
                            amap = _arg_map(helper, c)
                            have: set[str] = set()
                            for p_ in dparams:
                                if p_ in amap:
                                    have |= dep_of(amap[p_])
                            need: set[str] = set()
                            for p_ in stored:
                                if p_ in amap:
                                    a_ = amap[p_]
                                    # an argument that is None on this path (`x is not None` false / `x is None` true) carries no data
                                    if isinstance(a_, ast.Name) and (truth.get(f"{a_.id} is not None") is False or truth.get(f"{a_.id} is None") is True):
                                        continue
                                    need |= dtype_deps(a_)
                            need -= {first}
                            key_c = ast.unparse(c)[:100]
                            if need - have:
                                call_findings[key_c] = (c, helper, sorted(need - have))
                            else:
                                call_proven.setdefault(key_c, (c, helper))

            if isinstance(st, ast.Assign) and len(st.targets) == 1:
                tgt, val = st.targets[0], st.value
                if isinstance(tgt, ast.Name):
                    made = None
                    if isinstance(val, ast.Call) and isinstance(val.func, ast.Attribute):
                        mk = val.func.attr
                        if mk in BUFFER_MAKERS:
                            d = next((k.value for k in val.keywords if k.arg == "dtype"), None)
                            if d is None and mk in ("zeros", "ones", "empty") and len(val.args) >= 2:
                                d = val.args[1]
                            if d is not None and dep_of(d):
                                made = dep_of(d)
                        elif mk in LIKE_MAKERS and val.args and not any(k.arg == "dtype" for k in val.keywords):
                            if dep_of(val.args[0]):
                                made = dep_of(val.args[0])
                    if made is not None:
                        bufs[tgt.id] = (made, st)
                        dexpr = next((k.value for k in val.keywords if k.arg == "dtype"), None) or (val.args[1] if len(val.args) >= 2 else val.args[0] if val.args else val)
                        floating = any((isinstance(x, ast.Name) and x.id in ("float", "complex")) or (isinstance(x, ast.Attribute) and x.attr.startswith(("float", "complex", "inexact", "double")))
                                       for x in ast.walk(dexpr))
                        buf_wide[tgt.id] = (tokens_of(dexpr), floating)
                    else:
                        bufs.pop(tgt.id, None)
                        buf_wide.pop(tgt.id, None)
                    deps[tgt.id] = dep_of(val)
                    wide[tgt.id] = tokens_of(val)
                elif isinstance(tgt, (ast.Tuple, ast.List)):
                    d = dep_of(val)
                    w_ = tokens_of(val)
                    for x in ast.walk(tgt):
                        if isinstance(x, ast.Name):
                            deps[x.id] = d
                            wide[x.id] = set(w_)
                            bufs.pop(x.id, None)
                            buf_wide.pop(x.id, None)
                elif isinstance(tgt, ast.Subscript) and isinstance(tgt.value, ast.Name) and tgt.value.id in bufs:
                    pd, cst = bufs[tgt.value.id]
                    pv = dtype_deps(val) - {first}
                    key = norm_stmt(st)
                    if pv and not pv <= pd:
                        findings[key] = (st, cst, sorted(pv - pd), sorted(pd))
                    else:
                        proven.setdefault(key, (st, cst))
                    have_w, floating = buf_wide.get(tgt.value.id, (set(), True))
                    need_w = tokens_of(val)
                    if need_w and not floating and not have_w:
                        # the stored value went through a division / normalisation, the dtype of the buffer was computed before any: the raw operand's dtype
                        wide_findings[key] = (st, cst, sorted(need_w))
                    elif need_w:
                        wide_proven.setdefault(key, (st, cst))
            elif isinstance(st, ast.AugAssign) and isinstance(st.target, ast.Name):
                deps[st.target.id] = deps.get(st.target.id, set()) | dep_of(st.value)
                wide[st.target.id] = wide.get(st.target.id, set()) | tokens_of(st.value)
    for k in list(call_proven):
        if k in call_findings:
            del call_proven[k]
    for k in list(wide_proven):
        if k in wide_findings:
            del wide_proven[k]
    return findings, proven, {"bad": call_findings, "ok": call_proven, "wide_bad": wide_findings, "wide_ok": wide_proven}


def _single_entry(ix: ast.expr) -> int:
    """how many axes of the index select ONE position (an int, or a slice of width one written -1: / k:k+1); 0 when any element selects more"""
    elts = ix.elts if isinstance(ix, ast.Tuple) else [ix]
    n = 0
    for x in elts:
        if isinstance(x, ast.Constant) and x.value is Ellipsis:
            continue
        if isinstance(x, ast.Constant) and isinstance(x.value, int) or (isinstance(x, ast.UnaryOp) and isinstance(x.op, ast.USub) and isinstance(x.operand, ast.Constant)):
            n += 1
            continue
        if isinstance(x, ast.Slice) and x.step is None and x.lower is not None:
            lo = ast.literal_eval(x.lower) if isinstance(x.lower, (ast.Constant, ast.UnaryOp)) and not any(isinstance(y, ast.Name) for y in ast.walk(x.lower)) else None
            hi = (ast.literal_eval(x.upper) if x.upper is not None and not any(isinstance(y, ast.Name) for y in ast.walk(x.upper)) else None)
            if isinstance(lo, int) and ((x.upper is None and lo == -1) or (isinstance(hi, int) and hi - lo == 1)):
                n += 1
                continue
        return 0
    return n


def rule_K11(run: Run, prog: Program) -> int:
    run.rule(
        "E6.K11",
        "a matrix handed to the constructor of a projective object (cls(...), type(self)(...), from_array, a transformation / quadric class) is not divided by "
        "ONE OF ITS OWN ENTRIES: the scale of a representative is immaterial, and the entry vanishes for legitimate objects (a map that sends the origin to "
        "infinity has corner entry 0), so the quotient is nan on a family of legal inputs",
    )
    n = 0
    projective = {c.name for c in prog.classes.values() if any(b.name == "ProjectiveTensor" for b in prog.mro(c))}
    ctor_names = projective | {"cls", "from_array", "from_tensor"}
    for fn in prog.package_functions():
        if fn.parent is not None:
            continue
        assigned: dict[str, ast.BinOp] = {}
        quotients: list[tuple[ast.BinOp, ast.stmt]] = []
        for st in walk_no_nested(fn.node):
            if not isinstance(st, ast.stmt):
                continue
            for x in ast.walk(st) if not isinstance(st, (ast.FunctionDef, ast.If, ast.For, ast.While, ast.With, ast.Try)) else []:
                if isinstance(x, ast.BinOp) and isinstance(x.op, ast.Div) and isinstance(x.right, ast.Subscript) and _single_entry(x.right.slice) >= 2 \
                        and ast.unparse(x.right.value) == ast.unparse(x.left):
                    quotients.append((x, st))
                    if isinstance(st, ast.Assign) and len(st.targets) == 1 and isinstance(st.targets[0], ast.Name) and st.value is x:
                        assigned[st.targets[0].id] = x
        if not quotients:
            continue
        for st in walk_no_nested(fn.node):
            if not isinstance(st, ast.Call):
                continue
            f_ = st.func
            nm = f_.attr if isinstance(f_, ast.Attribute) else getattr(f_, "id", "")
            is_type_self = isinstance(f_, ast.Call) and isinstance(f_.func, ast.Name) and f_.func.id == "type"
            if nm not in ctor_names and not is_type_self:
                continue
            for a in list(st.args) + [k.value for k in st.keywords]:
                q = a if any(a is q_ for q_, _s in quotients) else assigned.get(a.id) if isinstance(a, ast.Name) else None
                if q is None:
                    continue
                n += 1
                run.add("E6.K11", fn.short, ast.unparse(st)[:90], VIOLATION,
                        f"`{ast.unparse(q)[:70]}` divides the matrix by its own entry `{ast.unparse(q.right)[:40]}` before it becomes a projective object: the entry is zero "
                        f"for legitimate objects (a projective map that sends the origin to infinity), and the quotient is nan there", f"{fn.module.rel}:{st.lineno}")
    if n == 0:
        run.add("E6.K11", "package", "constructor arguments", PROVEN, "no matrix is divided by one of its own entries on its way into a projective object", "")
        n = 1
    return n


def rule_K7w(run: Run, prog: Program) -> int:
    run.rule(
        "E6.K7w",
        "a buffer assembled by item assignment whose stored value went through a dtype-widening operation (true division, normalized_array, sqrt, "
        "trigonometry, norm ...) gets its dtype from a value that went through one as well (or names a floating type): a dtype computed from the RAW operand "
        "is the integer dtype of an integer representative, and the fractional coordinates of the normalised value are truncated - the result then depends "
        "on the representative",
    )
    n = 0
    for fn in prog.package_functions():
        if fn.parent is not None:
            continue
        res = _k7_analyse(prog, fn, {})
        if res is None:
            continue
        calls = res[2]
        for key, (st, cst, toks) in calls["wide_bad"].items():
            n += 1
            run.add("E6.K7w", fn.short, key, VIOLATION,
                    f"`{key[:70]}` stores a value that went through `{toks[0][:50]}` into a buffer whose dtype (`{norm_stmt(cst)[:80]}`) is computed from operands that went "
                    f"through no widening operation: for an integer representative the buffer is an integer array and the fractional value is truncated",
                    f"{fn.module.rel}:{st.lineno}")
        for key, (st, cst) in calls["wide_ok"].items():
            n += 1
            run.add("E6.K7w", fn.short, key, PROVEN, "the dtype of the buffer is computed from a value that went through a widening operation too (or names a floating type)",
                    f"{fn.module.rel}:{st.lineno}")
    return n


def rule_K7(run: Run, prog: Program) -> int:
    run.rule(
        "E6.K7",
        "a buffer assembled by item assignment (np.eye/zeros/empty(..., dtype=D); buf[...] = V) gets a dtype D that depends on EVERY "
        "parameter whose data is stored into it: if D is computed from one operand only, the other operand is silently cast "
        "(an integer matrix with a fractional offset is truncated). Decided per path, with equal `if` tests treated as correlated; when the dtype "
        "is a parameter of a helper, the obligation is judged at every call site of the helper, with the dependences of the caller's path.",
    )
    n = 0
    fns = [fn for fn in prog.package_functions() if fn.parent is None]
    first_pass = {}
    summaries: dict = {}
    for fn in fns:
        res = _k7_analyse(prog, fn, {})
        if res is None:
            continue
        first_pass[fn.qualname] = (fn, res)
        findings = res[0]
        moved = {}
        for key, (st, cst, missing, pd) in findings.items():
            dtype_params = {p_ for p_ in pd if _used_only_as_dtype(fn, p_)}
            if dtype_params:
                # the dtype is (also) handed in by the caller: `dtype=v.dtype if dtype is None else dtype` - the call sites decide
                moved[key] = (set(pd), set(missing))
        if moved and len(moved) == len(findings):
            dps, stored = set(), set()
            for d_, m_ in moved.values():
                dps |= d_
                stored |= m_
            summaries[fn.name] = (fn, dps, stored)
    for fn in fns:
        res = _k7_analyse(prog, fn, summaries) if summaries else (first_pass.get(fn.qualname) or (None, None))[1]
        if res is None:
            continue
        findings, proven, calls = res
        is_helper = fn.name in summaries and summaries[fn.name][0] is fn
        sites = _call_sites(prog, fn) if is_helper else []
        for key, (st, cst, missing, pd) in findings.items():
            n += 1
            if is_helper:
                run.add("E6.K7", fn.short, key, PROVEN if sites else UNDECIDED,
                        (f"the dtype of the buffer is the parameter {pd}: judged at the {len(sites)} call site(s) of {fn.short}" if sites else
                         f"the dtype of the buffer is the parameter {pd} and no call site of {fn.short} was found in the package"), f"{fn.module.rel}:{st.lineno}")
                continue
            run.add("E6.K7", fn.short, key, VIOLATION,
                    f"`{key[:70]}` stores data derived from {missing} into a buffer whose dtype (`{norm_stmt(cst)[:70]}`) is computed from "
                    f"{pd} only on some path: values of a wider dtype (fractional into integer, complex into real) are silently truncated",
                    f"{fn.module.rel}:{st.lineno}")
        for key, (st, cst) in proven.items():
            if key in findings:
                continue
            n += 1
            run.add("E6.K7", fn.short, key, PROVEN, "buffer dtype depends on every parameter whose data is stored", f"{fn.module.rel}:{st.lineno}")
        for key, (c, helper, lacking) in calls["bad"].items():
            n += 1
            run.add("E6.K7", fn.short, key, VIOLATION,
                    f"`{key[:70]}` hands {helper.short} a dtype that on some path does not depend on {lacking}, whose data {helper.short} stores into the buffer it "
                    f"assembles: values of a wider dtype (fractional into integer, complex into real) are silently truncated", f"{fn.module.rel}:{c.lineno}")
        for key, (c, helper) in calls["ok"].items():
            n += 1
            run.add("E6.K7", fn.short, key, PROVEN, f"the dtype handed to {helper.short} depends on every parameter whose data it stores", f"{fn.module.rel}:{c.lineno}")
    return n


# ------------------------------------------------------------------------------------------------ K8
FULL_REDUCTIONS = {"max", "min", "amax", "amin", "sum", "prod", "mean", "median", "std", "var", "ptp", "norm", "nanmax", "nanmin", "average"}
TOLERANCE_KW = {"tol", "atol", "rtol", "tolerance", "eps"}
COORD_ATTRS = {"array", "normalized_array"}


def _is_full_reduction(call: ast.Call) -> ast.AST | None:
    """the reduced expression when `call` reduces over ALL axes (no axis argument), else None"""
    f = call.func
    name = f.attr if isinstance(f, ast.Attribute) else getattr(f, "id", "")
    if name not in FULL_REDUCTIONS:
        return None
    for k in call.keywords:
        if k.arg == "axis" and not (isinstance(k.value, ast.Constant) and k.value.value is None):
            return None
    if isinstance(f, ast.Attribute) and isinstance(f.value, ast.Name) and f.value.id in ("np", "numpy") or (
            isinstance(f, ast.Attribute) and isinstance(f.value, ast.Attribute) and f.value.attr == "linalg"):
        if len(call.args) >= 2:
            return None  # positional axis
        return call.args[0] if call.args else None
    if isinstance(f, ast.Attribute) and not call.args:
        return f.value  # x.max()
    return None


def rule_K8(run: Run, prog: Program, only: set | None = None) -> int:
    run.rule(
        "E6.K8",
        "element-wise decisions: a tolerance (tol=/atol=/rtol= of a comparison helper) handed to a test over a collection does not depend on a "
        "reduction over ALL axes of coordinate data - such a value couples the positions of a collection, so whether element i counts as "
        "zero / equal / at infinity depends on what is stored at element j, and a collection no longer answers what its single objects answer",
    )
    tensor = prog.cls("Tensor")
    coll = prog.find_cls("TensorCollection")
    n = 0
    for fn in prog.package_functions():
        if only is not None and fn.qualname not in only:
            continue
        # can a collection reach this code?
        if fn.cls is not None:
            if not prog.is_subclass(fn.cls, tensor):
                continue
            if coll is not None and not any(prog.is_subclass(c, coll) for c in prog.subclasses(fn.cls)):
                continue  # a kind without a collection class (single objects only)
        else:
            anns = [p.annotation for p in fn.params() if p.annotation is not None]
            va = fn.node.args.vararg
            if va is not None and va.annotation is not None:
                anns.append(va.annotation)
            if not any(ks and any(prog.is_subclass(k, tensor) for k in ks) for ks in (prog.annotation_classes(fn.module, a) for a in anns)):
                continue
        nd_params = {p.arg for p in fn.params() if p.annotation is not None and "ndarray" in ast.unparse(p.annotation)}

        def coord_data(e: ast.AST) -> bool:
            return any(isinstance(x, ast.Attribute) and x.attr in COORD_ATTRS for x in ast.walk(e)) or any(
                isinstance(x, ast.Name) and x.id in nd_params for x in ast.walk(e))

        # names whose value depends on a full reduction of coordinate data
        tainted: dict[str, ast.AST] = {}
        changed = True
        assigns = [st for st in walk_no_nested(fn.node) if isinstance(st, ast.Assign) and len(st.targets) == 1 and isinstance(st.targets[0], ast.Name)]

        def reduction_in(e: ast.AST) -> ast.Call | None:
            for x in ast.walk(e):
                if isinstance(x, ast.Call):
                    red = _is_full_reduction(x)
                    if red is not None and coord_data(red):
                        return x
            return None

        while changed:
            changed = False
            for st in assigns:
                nm = st.targets[0].id
                if nm in tainted:
                    continue
                r = reduction_in(st.value)
                if r is not None:
                    tainted[nm] = r
                    changed = True
                    continue
                for x in ast.walk(st.value):
                    if isinstance(x, ast.Name) and x.id in tainted:
                        tainted[nm] = tainted[x.id]
                        changed = True
                        break
        for call in walk_no_nested(fn.node):
            if not isinstance(call, ast.Call):
                continue
            for k in call.keywords:
                if k.arg not in TOLERANCE_KW:
                    continue
                n += 1
                src = reduction_in(k.value)
                if src is None:
                    for x in ast.walk(k.value):
                        if isinstance(x, ast.Name) and x.id in tainted:
                            src = tainted[x.id]
                            break
                loc = f"{fn.module.rel}:{call.lineno}"
                label = f"{ast.unparse(call.func)[:30]}({k.arg}={ast.unparse(k.value)[:40]})"
                if src is None:
                    run.add("E6.K8", fn.short, label, PROVEN, "the tolerance does not depend on a whole-array reduction of coordinates", loc)
                else:
                    run.add("E6.K8", fn.short, label, VIOLATION,
                            f"the tolerance `{k.arg}={ast.unparse(k.value)[:50]}` depends on `{ast.unparse(src)[:60]}`, a reduction over ALL axes - for a "
                            f"collection that is the extreme over every element, so one large (or small) element changes the verdict for all the others; "
                            f"the same objects give a different answer one by one (reduce with axis= over the coordinate axes only)", loc)
    return n


# ------------------------------------------------------------------------------------------------ K9
# delete / insert / take / append / unique are left out on purpose: the package uses np.delete with flat indices from np.ravel_multi_index
FLATTENING_WITHOUT_AXIS = {"roll", "flip", "argmax", "argmin", "cumsum", "cumprod", "repeat", "vdot"}  # (vdot has no axis at all: it always flattens both operands)
AXIS_DEFAULT_LAST = {"sort", "argsort", "diff", "trapz"}  # these default to the last axis, not to the flattened array


def _scalar_guarded(fn: FunctionInfo, node: ast.AST) -> bool:
    """node sits in the arm of an `if` whose test says the data is a single object (np.isscalar(..), free_indices == 0, ndim == 1 ...)"""
    def find(stmts, guarded):
        for st in stmts:
            if not any(x is node for x in ast.walk(st)):
                continue
            if isinstance(st, ast.If):
                src = ast.unparse(st.test)
                single = "isscalar" in src or ("free_indices" in src and "== 0" in src) or ("ndim" in src and ("== 1" in src or "== 0" in src))
                if any(x is node for b in st.body for x in ast.walk(b)):
                    return find(st.body, guarded or single)
                if any(x is node for b in st.orelse for x in ast.walk(b)):
                    neg = ("free_indices" in src and "> 0" in src) or "not np.isscalar" in src
                    return find(st.orelse, guarded or neg)
                return guarded
            for f in ("body", "orelse", "finalbody"):
                sub = getattr(st, f, None)
                if isinstance(sub, list) and sub and isinstance(sub[0], ast.stmt) and any(x is node for b in sub for x in ast.walk(b)):
                    return find(sub, guarded)
            return guarded
        return guarded
    return find(fn.node.body, False)


def rule_K9(run: Run, prog: Program, only: set | None = None) -> int:
    run.rule(
        "E6.K9",
        "numpy operations that act on the FLATTENED array when `axis` is omitted (roll, flip, argmax/argmin, cumsum, cumprod, repeat) are given an explicit axis wherever they are applied to coordinate-derived data in code a collection can "
        "reach: without it the rows of a collection are mixed (a roll moves the last entry of one element into the next element). np.vdot has no axis at all and always flattens; "
        "np.linalg.solve reads a right-hand side without its own trailing axis as vectors or as a matrix depending on the number of dimensions",
    )
    tensor = prog.cls("Tensor")
    coll = prog.find_cls("TensorCollection")
    n = 0
    for fn in prog.package_functions():
        if only is not None and fn.qualname not in only:
            continue
        if fn.cls is not None:
            if not prog.is_subclass(fn.cls, tensor):
                continue
            if coll is not None and not any(prog.is_subclass(c, coll) for c in prog.subclasses(fn.cls)):
                continue
        else:
            anns = [p.annotation for p in fn.params() if p.annotation is not None]
            va = fn.node.args.vararg
            if va is not None and va.annotation is not None:
                anns.append(va.annotation)
            if not any(ks and any(prog.is_subclass(k, tensor) for k in ks) for ks in (prog.annotation_classes(fn.module, a) for a in anns)):
                continue
            # ... and at least one of them can be a collection: a parameter annotated with a bound single-object class (Point, Subspace, Line ...) cannot
            if coll is not None and not any(
                    ks and any(prog.is_subclass(k, tensor) and (prog.is_subclass(k, coll) or any(prog.is_subclass(c, coll) for c in prog.subclasses(k))) for k in ks)
                    for ks in (prog.annotation_classes(fn.module, a) for a in anns)):
                continue
        # names derived from coordinate data
        derived: set[str] = set()
        assigns = [st for st in walk_no_nested(fn.node) if isinstance(st, ast.Assign)]

        def is_coord(e: ast.AST) -> bool:
            return any(isinstance(x, ast.Attribute) and x.attr in COORD_ATTRS for x in ast.walk(e)) or any(
                isinstance(x, ast.Name) and x.id in derived for x in ast.walk(e))

        changed = True
        while changed:
            changed = False
            for st in assigns:
                if is_coord(st.value):
                    for t in st.targets:
                        for x in ast.walk(t):
                            if isinstance(x, ast.Name) and x.id not in derived:
                                derived.add(x.id)
                                changed = True
        for call in walk_no_nested(fn.node):
            if not isinstance(call, ast.Call):
                continue
            f = call.func
            name = f.attr if isinstance(f, ast.Attribute) else getattr(f, "id", "")
            if name == "solve" and len(call.args) == 2 and isinstance(f, ast.Attribute) and is_coord(call.args[1]):
                # np.linalg.solve(a, b): b is read as ONE vector per matrix only when it has exactly one dimension less than a; a stack of vectors for one matrix
                # (a collection of hyperplanes for one quadric) is read as a matrix. The right-hand side needs its own trailing axis (b[..., None]).
                b = call.args[1]
                src = next((st.value for st in assigns if isinstance(b, ast.Name) and any(isinstance(t, ast.Name) and t.id == b.id for t in st.targets)), b)
                columned = (isinstance(src, ast.Subscript) and any(isinstance(x, ast.Constant) and x.value is None for x in ast.walk(src.slice))) or (
                    isinstance(src, ast.Call) and getattr(src.func, "attr", getattr(src.func, "id", "")) in ("expand_dims", "reshape", "atleast_2d", "stack", "column_stack"))
                n += 1
                loc = f"{fn.module.rel}:{call.lineno}"
                label = ast.unparse(call)[:70]
                if columned:
                    run.add("E6.K9", fn.short, label, PROVEN, "the right-hand side has its own trailing axis", loc)
                elif _scalar_guarded(fn, call):
                    run.add("E6.K9", fn.short, label, PROVEN, "only reached for a single object (scalar / no-collection guard)", loc)
                else:
                    run.add("E6.K9", fn.short, label, VIOLATION,
                            f"`{label}` hands np.linalg.solve coordinate vectors without a trailing axis: numpy reads them as one vector per matrix only when they have "
                            f"exactly one dimension less than the matrices - a collection of vectors for a single matrix (or the reverse) is solved as a MATRIX right-hand "
                            f"side, or raises", loc)
                continue
            if name not in FLATTENING_WITHOUT_AXIS or name in AXIS_DEFAULT_LAST:
                continue
            is_np = isinstance(f, ast.Attribute) and isinstance(f.value, ast.Name) and f.value.id in ("np", "numpy")
            is_method = isinstance(f, ast.Attribute) and not is_np
            data = call.args[0] if (is_np and call.args) else (f.value if is_method else None)
            if data is None or not is_coord(data):
                continue
            if is_method and name not in ("argmax", "argmin", "cumsum", "cumprod", "repeat", "take"):
                continue
            n_pos = {"roll": 3, "flip": 2, "argmax": 2, "argmin": 2, "cumsum": 2, "cumprod": 2, "repeat": 3, "delete": 3, "insert": 4, "append": 3, "take": 3,
                     "unique": 99, "searchsorted": 99}.get(name, 99)
            args_given = len(call.args) + (1 if is_method else 0)
            has_axis = any(k.arg == "axis" and not (isinstance(k.value, ast.Constant) and k.value.value is None) for k in call.keywords) or args_given >= n_pos
            n += 1
            loc = f"{fn.module.rel}:{call.lineno}"
            label = ast.unparse(call)[:70]
            unravelled = name in ("argmax", "argmin") and any(
                isinstance(x, ast.Call) and getattr(x.func, "attr", getattr(x.func, "id", "")) == "unravel_index" and any(y is call for y in ast.walk(x))
                for x in walk_no_nested(fn.node))
            if has_axis:
                run.add("E6.K9", fn.short, label, PROVEN, "explicit axis", loc)
            elif unravelled:
                run.add("E6.K9", fn.short, label, PROVEN, "flat position turned back into an index tuple by np.unravel_index", loc)
            elif _scalar_guarded(fn, call):
                run.add("E6.K9", fn.short, label, PROVEN, "only reached for a single object (scalar / no-collection guard)", loc)
            else:
                run.add("E6.K9", fn.short, label, VIOLATION,
                        f"`{label}` has no axis argument: numpy then works on the flattened array, so for a collection (several points, several polygons) "
                        f"entries of one element are moved into / compared with another element - single objects are unaffected, collections get answers "
                        f"that depend on their neighbours", loc)
    return n


# ------------------------------------------------------------------------------------------------ K10
NARROW_DTYPES = {"int8", "int16", "uint8", "uint16", "byte", "short"}
ACCUMULATING = {"tensordot", "einsum", "dot", "matmul", "inner", "vdot", "sum", "prod", "cumsum", "cumprod", "trace", "kron", "convolve"}
DTYPE_PRESERVING = {"reshape", "transpose", "swapaxes", "moveaxis", "copy", "ravel", "flatten", "squeeze", "expand_dims", "take", "view", "T", "array", "asarray", "ascontiguousarray"}


def narrow_array_classes(prog: Program) -> dict[str, str]:
    """classes whose constructor builds its array with a narrow integer dtype (np.int8 ...): qualname -> dtype name"""
    out = {}
    for c in prog.classes.values():
        init = c.methods.get("__init__")
        if init is None:
            continue
        for x in [y for g in prog.private_helpers(init) for y in ast.walk(g.node)]:
            if isinstance(x, ast.keyword) and x.arg == "dtype":
                nm = x.value.attr if isinstance(x.value, ast.Attribute) else getattr(x.value, "id", getattr(x.value, "value", ""))
                if isinstance(nm, str) and nm in NARROW_DTYPES:
                    out[c.qualname] = nm
    return out


def rule_K10(run: Run, prog: Program) -> int:
    run.rule(
        "E6.K10",
        "the epsilon arrays are stored as int8: an accumulating numpy operation (tensordot, einsum, dot, matmul, sum, prod ...) whose array operands "
        "ALL come from such narrow-integer tensors accumulates in that dtype and wraps around beyond 127 - it needs dtype= / astype() or a wider "
        "operand. (Contractions with coordinate arrays are promoted by numpy and are fine.)",
    )
    narrow = narrow_array_classes(prog)
    run.stats["narrow_integer_tensor_classes"] = sorted(prog.classes[q].name for q in narrow)
    if not narrow:
        run.add("E6.K10", "package", "narrow integer tensors", UNDECIDED, "no tensor class that builds its array with an int8 / int16 dtype was recognised; the clause is not judged", "")
        return 0
    n = 0
    for fn in prog.package_functions():
        names: dict[str, str] = {}  # local name -> 'tensor' (object of a narrow class) | 'array'

        def kind_of(e: ast.AST) -> str | None:
            if isinstance(e, ast.Name):
                return names.get(e.id)
            if isinstance(e, ast.Call):
                t = prog.resolve_expr_name(fn.module, e.func, fn)
                if t in narrow:
                    return "tensor"
                f = e.func
                nm = f.attr if isinstance(f, ast.Attribute) else getattr(f, "id", "")
                if nm in DTYPE_PRESERVING:
                    src = e.args[0] if (isinstance(f, ast.Name) or (isinstance(f, ast.Attribute) and isinstance(f.value, ast.Name) and f.value.id in ("np", "numpy"))) and e.args \
                        else (f.value if isinstance(f, ast.Attribute) else None)
                    if src is not None and kind_of(src) == "array" and not any(k.arg == "dtype" for k in e.keywords):
                        return "array"
                return None
            if isinstance(e, ast.Attribute):
                if e.attr == "array" and kind_of(e.value) == "tensor":
                    return "array"
                if e.attr in ("T", "mT") and kind_of(e.value) == "array":
                    return "array"
                return None
            if isinstance(e, ast.Subscript):
                base = kind_of(e.value)
                if base == "array":
                    return "array"
                # cls._cache[key] of a narrow class
                if isinstance(e.value, ast.Attribute) and e.value.attr == "_cache" and fn.cls is not None and fn.cls.qualname in narrow:
                    return "array"
                return None
            return None

        changed = True
        while changed:
            changed = False
            for st in walk_no_nested(fn.node):
                if isinstance(st, ast.Assign) and len(st.targets) == 1 and isinstance(st.targets[0], ast.Name):
                    k = kind_of(st.value)
                    if k is not None and names.get(st.targets[0].id) != k:
                        names[st.targets[0].id] = k
                        changed = True
        for call in walk_no_nested(fn.node):
            if not isinstance(call, ast.Call):
                continue
            f = call.func
            nm = f.attr if isinstance(f, ast.Attribute) else getattr(f, "id", "")
            if nm not in ACCUMULATING:
                continue
            is_np = isinstance(f, ast.Attribute) and isinstance(f.value, ast.Name) and f.value.id in ("np", "numpy")
            operands = list(call.args) if is_np else ([f.value] + list(call.args) if isinstance(f, ast.Attribute) else [])
            arrays = [a for a in operands if not isinstance(a, ast.Constant) and not (isinstance(a, (ast.List, ast.Tuple)) and all(isinstance(x, (ast.Constant, ast.Name)) for x in a.elts))]
            arrays = [a for a in arrays if not (isinstance(a, ast.Name) and a.id not in names and nm in ("tensordot", "einsum") and a is not operands[0] and a is not (operands[1] if len(operands) > 1 else None))]
            narrow_ops = [a for a in arrays if kind_of(a) == "array"]
            if not narrow_ops:
                continue
            data_ops = [a for a in arrays[:2]] if nm in ("tensordot", "dot", "matmul", "inner", "vdot", "kron", "convolve") else [arrays[0]] if nm != "einsum" else [a for a in arrays if not isinstance(a, ast.Constant)]
            n += 1
            loc = f"{fn.module.rel}:{call.lineno}"
            label = ast.unparse(call)[:70]
            widened = any(k.arg == "dtype" for k in call.keywords)
            def _empty_axes(a_: ast.AST) -> bool:
                return isinstance(a_, (ast.Tuple, ast.List)) and len(a_.elts) == 2 and all(isinstance(x, (ast.Tuple, ast.List)) and not x.elts for x in a_.elts)

            outer = nm == "tensordot" and ((len(call.args) > 2 and (isinstance(call.args[2], ast.Constant) and call.args[2].value == 0 or _empty_axes(call.args[2]))) or any(
                k.arg == "axes" and isinstance(k.value, ast.Constant) and k.value.value == 0 for k in call.keywords))
            if outer:
                run.add("E6.K10", fn.short, label, PROVEN, "an outer product (axes=0): nothing is summed", loc)
            elif widened:
                run.add("E6.K10", fn.short, label, PROVEN, "accumulates in the dtype given by dtype=", loc)
            elif all(kind_of(a) == "array" for a in data_ops):
                run.add("E6.K10", fn.short, label, VIOLATION,
                        f"`{label}` contracts / sums arrays that all come from int8 tensors ({', '.join(sorted(set(prog.classes[q].name for q in narrow)))}): numpy "
                        f"accumulates in int8, so a sum of more than 127 equal terms wraps around (e.g. the (n - p)! terms of an epsilon-epsilon contraction "
                        f"from n - p = 6 on); widen one operand (astype) or pass dtype=", loc)
            else:
                run.add("E6.K10", fn.short, label, PROVEN, "another operand decides the accumulator dtype (numpy promotes)", loc)
    return n
