"""Static class-set evaluation of expressions from the package's own annotations (no type checker is available).

A TypeVal is an upper bound: the set of package classes an expression may be an instance of (each standing for itself
and its subclasses) plus, for containers, the TypeVal of the elements.
"""

from __future__ import annotations

import ast
from dataclasses import dataclass

from geolint.model import ClassInfo, FunctionInfo, Module, Program


@dataclass(frozen=True)
class TypeVal:
    classes: frozenset = frozenset()  # of ClassInfo qualnames
    elem: "TypeVal | None" = None
    is_array: bool = False  # annotated as ndarray / NDArray / ArrayLike

    def join(self, other: "TypeVal | None") -> "TypeVal":
        if other is None:
            return self
        e = self.elem.join(other.elem) if self.elem and other.elem else (self.elem or other.elem)
        return TypeVal(self.classes | other.classes, e, self.is_array or other.is_array)

    def __bool__(self) -> bool:
        return bool(self.classes) or self.elem is not None or self.is_array


EMPTY = TypeVal()
CONTAINER_HEADS = {"list", "List", "tuple", "Tuple", "Sequence", "Iterable", "Iterator", "Generator", "set", "frozenset", "Collection"}


class TypeEval:
    def __init__(self, prog: Program) -> None:
        self.prog = prog

    # ------------------------------------------------------------------ annotations
    def from_annotation(self, module: Module, ann: ast.AST | None, fn: FunctionInfo | None = None, self_cls: ClassInfo | None = None) -> TypeVal:
        p = self.prog
        if ann is None:
            return EMPTY
        if isinstance(ann, ast.Constant) and isinstance(ann.value, str):
            try:
                ann = ast.parse(ann.value, mode="eval").body
            except SyntaxError:
                return EMPTY
        if isinstance(ann, ast.BinOp) and isinstance(ann.op, ast.BitOr):
            return self.from_annotation(module, ann.left, fn, self_cls).join(self.from_annotation(module, ann.right, fn, self_cls))
        if isinstance(ann, ast.Subscript):
            head = ast.unparse(ann.value).split(".")[-1]
            sl = ann.slice
            elts = sl.elts if isinstance(sl, ast.Tuple) else [sl]
            if head in ("Union", "Optional"):
                out = EMPTY
                for e in elts:
                    out = out.join(self.from_annotation(module, e, fn, self_cls))
                return out
            if head in CONTAINER_HEADS:
                el = EMPTY
                for e in elts:
                    if isinstance(e, ast.Constant) and e.value is Ellipsis:
                        continue
                    el = el.join(self.from_annotation(module, e, fn, self_cls))
                    if head in ("Generator",):
                        break
                return TypeVal(frozenset(), el if el else None)
            if head in ("NDArray", "ndarray"):
                return TypeVal(is_array=True)
            if head == "Unpack":
                return self.from_annotation(module, elts[0], fn, self_cls)
            t = p.resolve_expr_name(module, ann.value, fn)
            if t in p.classes:
                return TypeVal(frozenset({t}))
            return EMPTY
        if isinstance(ann, (ast.Name, ast.Attribute)):
            src = ast.unparse(ann)
            if src in ("Self",) and self_cls is not None:
                return TypeVal(frozenset({self_cls.qualname}))
            if src.split(".")[-1] in ("ndarray", "NDArray", "ArrayLike"):
                return TypeVal(is_array=True)
            if src == "T" and self_cls is not None:
                # TypeVar of TensorCollection[T]: the element class
                hit = p.class_attr(self_cls, "_element_class")
                if hit:
                    t = p.resolve_expr_name(hit[0].module, hit[1])
                    if t in p.classes:
                        return TypeVal(frozenset({t}))
                return EMPTY
            t = p.resolve_expr_name(module, ann, fn)
            if t in p.classes:
                return TypeVal(frozenset({t}))
        return EMPTY

    def param_types(self, fn: FunctionInfo) -> dict[str, TypeVal]:
        env: dict[str, TypeVal] = {}
        a = fn.node.args
        ps = fn.params()
        for i, p in enumerate(ps):
            if i == 0 and fn.cls is not None and not fn.is_staticmethod:
                env[p.arg] = TypeVal(frozenset({fn.cls.qualname}))
                continue
            env[p.arg] = self.from_annotation(fn.module, p.annotation, fn, fn.cls)
        if a.vararg:
            el = self.from_annotation(fn.module, a.vararg.annotation, fn, fn.cls)
            env[a.vararg.arg] = TypeVal(frozenset(), el if el else None)
        return env

    def element_class(self, c: ClassInfo) -> ClassInfo | None:
        hit = self.prog.class_attr(c, "_element_class")
        if hit:
            t = self.prog.resolve_expr_name(hit[0].module, hit[1]) if isinstance(hit[1], (ast.Name, ast.Attribute)) else None
            return self.prog.classes.get(t) if t else None
        return None

    # ------------------------------------------------------------------ expressions
    def iter_elem(self, tv: TypeVal) -> TypeVal:
        if tv.elem is not None:
            return tv.elem
        out = set()
        for q in tv.classes:
            c = self.prog.classes[q]
            for k in [c] + self.prog.subclasses(c, strict=True):
                e = self.element_class(k)
                if e is not None and e.name != "Tensor":
                    out.add(e.qualname)
        return TypeVal(frozenset(out))

    def method_result(self, recv: TypeVal, name: str, want_property: bool | None = None) -> TypeVal:
        out = EMPTY
        for q in recv.classes:
            c = self.prog.classes[q]
            seen = set()
            for k in [c] + self.prog.subclasses(c, strict=True):
                f = self.prog.lookup(k, name)
                if f is None or f.qualname in seen:
                    continue
                seen.add(f.qualname)
                out = out.join(self.from_annotation(f.module, f.node.returns, f, k))
                for ov in k.overloads.get(name, []):
                    out = out.join(self.from_annotation(ov.module, ov.node.returns, ov, k))
            if not seen:
                for k in [c] + self.prog.subclasses(c, strict=True):
                    ann = self.prog.class_annotation(k, name)
                    if ann is not None:
                        out = out.join(self.from_annotation(k.module, ann))
        return out

    def eval(self, fn: FunctionInfo, e: ast.AST, env: dict[str, TypeVal]) -> TypeVal:
        p = self.prog
        if isinstance(e, ast.Name):
            if e.id in env:
                return env[e.id]
            t = p.resolve_name(fn.module, e.id, fn)
            if t and t not in p.classes and t not in p.functions:
                gv = p.global_value(t)
                if gv is not None:
                    m, val = gv
                    if isinstance(val, ast.Call):
                        k = p.resolve_expr_name(m, val.func)
                        if k in p.classes:
                            return TypeVal(frozenset({k}))
                        if k in p.functions:
                            return self.from_annotation(p.functions[k].module, p.functions[k].node.returns, p.functions[k])
            return EMPTY
        if isinstance(e, ast.Attribute):
            recv = self.eval(fn, e.value, env)
            if recv.classes:
                return self.method_result(recv, e.attr)
            return EMPTY
        if isinstance(e, ast.Call):
            f = e.func
            if isinstance(f, ast.Name) and f.id == "cast" and len(e.args) == 2:
                return self.from_annotation(fn.module, e.args[0], fn, fn.cls)
            if isinstance(f, ast.Name) and f.id in ("list", "tuple", "iter", "reversed", "sorted") and e.args:
                inner = self.eval(fn, e.args[0], env)
                return TypeVal(frozenset(), self.iter_elem(inner) or None)
            if isinstance(f, ast.Attribute):
                if isinstance(f.value, ast.Call) and isinstance(f.value.func, ast.Name) and f.value.func.id == "super" and fn.cls is not None:
                    out = EMPTY
                    for k in p.mro(fn.cls)[1:]:
                        if f.attr in k.methods:
                            m = k.methods[f.attr]
                            out = self.from_annotation(m.module, m.node.returns, m, fn.cls)
                            break
                    return out
                tgt = p.resolve_expr_name(fn.module, f.value, fn)
                if tgt in p.classes:
                    c = p.classes[tgt]
                    m = p.lookup(c, f.attr)
                    if m is not None:
                        return self.from_annotation(m.module, m.node.returns, m, c)
                recv = self.eval(fn, f.value, env)
                if recv.classes:
                    return self.method_result(recv, f.attr)
                if isinstance(f.value, ast.Name) and f.value.id in ("np", "numpy"):
                    return TypeVal(is_array=True)
                return EMPTY
            tgt = p.resolve_expr_name(fn.module, f, fn)
            if tgt in p.classes:
                return TypeVal(frozenset({tgt}))
            if tgt in p.functions:
                m = p.functions[tgt]
                return self.from_annotation(m.module, m.node.returns, m)
            return EMPTY
        if isinstance(e, ast.Subscript):
            recv = self.eval(fn, e.value, env)
            if recv.elem is not None and not recv.classes:
                return recv if isinstance(e.slice, ast.Slice) else recv.elem
            if recv.classes:
                return TypeVal(recv.classes).join(self.iter_elem(recv))
            return EMPTY
        if isinstance(e, (ast.ListComp, ast.GeneratorExp, ast.SetComp)):
            env2 = dict(env)
            for g in e.generators:
                it = self.eval(fn, g.iter, env2)
                self.bind(g.target, self.iter_elem(it), env2)
            return TypeVal(frozenset(), self.eval(fn, e.elt, env2) or None)
        if isinstance(e, (ast.List, ast.Tuple)):
            el = EMPTY
            for x in e.elts:
                el = el.join(self.eval(fn, x.value if isinstance(x, ast.Starred) else x, env))
            return TypeVal(frozenset(), el if el else None)
        if isinstance(e, ast.IfExp):
            return self.eval(fn, e.body, env).join(self.eval(fn, e.orelse, env))
        if isinstance(e, ast.BinOp):
            # tensor arithmetic returns tensors of the package; keep the left operand's family as an approximation
            l = self.eval(fn, e.left, env)
            if l.classes:
                name = {ast.Add: "__add__", ast.Sub: "__sub__", ast.Mult: "__mul__", ast.Div: "__truediv__", ast.Pow: "__pow__"}.get(type(e.op))
                if name:
                    return self.method_result(l, name)
            return EMPTY
        if isinstance(e, ast.UnaryOp):
            return self.eval(fn, e.operand, env)
        return EMPTY

    def bind(self, target: ast.AST, tv: TypeVal, env: dict[str, TypeVal]) -> None:
        if isinstance(target, ast.Name):
            env[target.id] = tv
        elif isinstance(target, (ast.Tuple, ast.List)):
            for t in target.elts:
                self.bind(t.value if isinstance(t, ast.Starred) else t, tv.elem or EMPTY, env)
